import sys, os
sys.path.insert(0, os.getcwd())
import io
import contextlib
import random
import shutil
import struct
import tempfile
import threading
import time
import traceback
import warnings

import numpy as np
import zfpy
import segyio

import seismic_zfp
assert os.path.abspath(seismic_zfp.__file__).startswith(os.path.abspath(os.getcwd()) + os.sep), seismic_zfp.__file__

import seismic_zfp.conversion_utils as cu


class _D:
    version = '0.4.1'


class _P:
    @staticmethod
    def get_distribution(name):
        return _D


cu.pkg_resources = _P          # the installed version string cannot be parsed: see environment notes

from seismic_zfp.read import SgzReader
from seismic_zfp.conversion import NumpyConverter, SegyConverter
from seismic_zfp.segyio_emulator import SegyioEmulator
from seismic_zfp.utils import generate_fake_seismic, FileOffset

warnings.simplefilter('ignore')
BLOCK = 4096
FAILURES = []
COUNTS = {}
T0 = time.time()


def note(kind, n=1):
    COUNTS[kind] = COUNTS.get(kind, 0) + n


def check(cond, msg):
    note('checks')
    if not cond:
        FAILURES.append(msg)
        print('FAIL:', msg)
        if len(FAILURES) > 40:
            finish()
    return cond


TMPDIRS = []


def finish():
    for d in TMPDIRS:
        shutil.rmtree(d, ignore_errors=True)
    print(f'[{time.time() - T0:6.1f}s] ' + ', '.join(f'{k}={v}' for k, v in sorted(COUNTS.items())))
    if FAILURES:
        print(f'{len(FAILURES)} FAILED CHECKS')
        for f in FAILURES[:40]:
            print('  -', f)
        sys.stdout.flush()
        os._exit(1)
    print('all properties held')
    sys.stdout.flush()
    os._exit(0)


def quiet(fn, *a, **k):
    with contextlib.redirect_stdout(io.StringIO()):
        return fn(*a, **k)


# ----------------------------------------------------------------------------------------------
# Handles that count, fail and delay
# ----------------------------------------------------------------------------------------------

class Fault:
    """Fails the first read of one particular (offset, length) range.
    mode: 'raise' | 'raise_late' (blob: in readall) | 'short1' | 'half' | 'empty' """
    def __init__(self, rng, mode):
        self.rng = tuple(rng)
        self.mode = mode
        self.hits = 0
        self.lock = threading.Lock()

    def action(self, offset, length):
        if (offset, length) != self.rng:
            return None
        with self.lock:
            self.hits += 1
            if self.hits > 1:
                return None
        return self.mode

    @staticmethod
    def shorten(mode, data):
        if mode == 'short1':
            return data[:max(0, len(data) - 1)]
        if mode == 'half':
            return data[:len(data) // 2]
        if mode == 'empty':
            return data[:0]
        return data


class CountingFile:
    """Look-alike of a binary file handle on a real file: logs (offset, length) of every read"""
    def __init__(self, path):
        self._f = open(path, 'rb')
        self.name = path
        self.log = []
        self.fault = None
        self.closed = False

    def seek(self, pos, whence=0):
        return self._f.seek(pos, whence)

    def tell(self):
        return self._f.tell()

    def read(self, n=-1):
        off = self._f.tell()
        self.log.append((off, n))
        mode = self.fault.action(off, n) if self.fault is not None else None
        if mode in ('raise', 'raise_late'):
            raise OSError(5, f'injected read error at {off}+{n}')
        data = self._f.read(n)
        return Fault.shorten(mode, data)

    def close(self):
        self.closed = True
        self._f.close()


class _Stream:
    def __init__(self, data, fail=None):
        self._data = data
        self._fail = fail

    def readall(self):
        if self._fail is not None:
            raise self._fail
        return self._data


class Scheduler:
    """Holds every blob request until it is released; a controller releases the pending requests one at a
    time in an order chosen by the policy, each time after the set of pending requests has stopped growing.
    It never dead-locks whatever the library's task structure is: any pending request is released eventually.
    The results asserted never depend on the timing, only the interleaving that gets exercised does."""
    def __init__(self, policy, seed=0, settle=0.003):
        self.cv = threading.Condition()
        self.pending = {}
        self.ticket = 0
        self.policy = policy
        self.rnd = random.Random(seed)
        self.settle = settle
        self.order = []
        self.stop = False
        self.thread = threading.Thread(target=self._run, daemon=True)
        self.thread.start()

    def hold(self, offset):
        ev = threading.Event()
        with self.cv:
            self.ticket += 1
            self.pending[self.ticket] = (offset, ev)
            self.cv.notify_all()
        if not ev.wait(60):
            raise RuntimeError('scheduler stuck')

    def _choose(self):
        keys = list(self.pending)
        if self.policy == 'lifo':
            return max(keys)
        if self.policy == 'fifo':
            return min(keys)
        if self.policy == 'high':
            return max(keys, key=lambda t: (self.pending[t][0], t))
        if self.policy == 'low':
            return min(keys, key=lambda t: (self.pending[t][0], t))
        return self.rnd.choice(sorted(keys))

    def _run(self):
        while True:
            with self.cv:
                while not self.pending and not self.stop:
                    self.cv.wait(0.5)
                if self.stop and not self.pending:
                    return
                n = len(self.pending)
            while True:
                time.sleep(self.settle)
                with self.cv:
                    if len(self.pending) == n:
                        break
                    n = len(self.pending)
            with self.cv:
                t = self._choose()
                off, ev = self.pending.pop(t)
                self.order.append(off)
            ev.set()

    def close(self):
        with self.cv:
            self.stop = True
            self.cv.notify_all()


class FakeBlob:
    """Azure BlobClient look-alike over the bytes of a file; thread-safe; logs every range requested"""
    def __init__(self, path, length=None):
        with open(path, 'rb') as f:
            self.data = f.read()
        if length is not None:
            self.data = self.data[:length]
        self.blob_name = os.path.basename(path)
        self.lock = threading.Lock()
        self.log = []
        self.threads = set()
        self.fault = None
        self.scheduler = None
        self.closed = False

    def download_blob(self, offset=None, length=None):
        with self.lock:
            self.log.append((offset, length))
            self.threads.add(threading.get_ident())
        if self.scheduler is not None:
            self.scheduler.hold(offset)
        mode = self.fault.action(offset, length) if self.fault is not None else None
        if mode == 'raise':
            raise ConnectionError(f'injected download error at {offset}+{length}')
        if mode == 'raise_late':
            return _Stream(None, fail=ConnectionError(f'injected stream error at {offset}+{length}'))
        return _Stream(Fault.shorten(mode, self.data[offset:offset + length]))

    def close(self):
        self.closed = True


# ----------------------------------------------------------------------------------------------
# Files
# ----------------------------------------------------------------------------------------------

class Meta:
    pass


def file_meta(path):
    m = Meta()
    with SgzReader(path) as r:
        m.path = path
        m.size = os.path.getsize(path)
        m.is_2d = r.is_2d
        m.n_il, m.n_xl, m.n_s = r.n_ilines, r.n_xlines, r.n_samples
        m.tracecount = r.tracecount
        m.structured = r.structured
        m.bs = tuple(r.blockshape)
        m.sp = tuple(r.shape_pad)
        m.nhb = r.n_header_blocks
        m.data_start = r.data_start_bytes
        m.n_blocks = r.compressed_data_diskblocks
        m.data_end = m.data_start + m.n_blocks * BLOCK
        m.hlen = r.header_entry_length_bytes
        m.n_arrays = r.n_header_arrays
        m.stored = [(int(k), int(v)) for k, v in r.segy_traceheader_template.items() if isinstance(v, FileOffset)]
        m.array_offsets = sorted(set(v for _, v in m.stored))
        m.ilines = None if r.is_2d else [int(v) for v in r.ilines]
        m.xlines = None if r.is_2d else [int(v) for v in r.xlines]
        m.rate = r.rate
    # cross-check what the library parsed against the raw header bytes
    with open(path, 'rb') as f:
        head = f.read(BLOCK)
    assert struct.unpack('<I', head[0:4])[0] == m.nhb
    assert struct.unpack('<I', head[4:8])[0] == m.n_s
    assert struct.unpack('<I', head[64:68])[0] == m.n_arrays
    assert len(m.array_offsets) == m.n_arrays
    m.nb = tuple(m.sp[d] // m.bs[d] for d in range(3))
    assert m.nb[0] * m.nb[1] * m.nb[2] == m.n_blocks, (path, m.nb, m.n_blocks)
    return m


def build_files(tmp, which):
    """Writes the SGZ files the scenarios run on; returns {name: (path, source_array or None)}"""
    out = {}
    tf = segyio.tracefield.TraceField

    def numpy_file(name, shape, bits, blockshape=(4, 4, -1), extra_headers=True):
        vol, il, xl, z = generate_fake_seismic(*shape, min_iline=100, min_xline=20)
        vol = np.ascontiguousarray(vol, dtype=np.float32)
        headers = {}
        if extra_headers:
            ii, xx = np.meshgrid(il, xl, indexing='ij')
            headers = {tf.CDP_X: (1000 + 25 * ii + xx).astype(np.int32),
                       tf.CDP_Y: (5000 - 3 * ii + 7 * xx).astype(np.int32),
                       tf.offset: (ii * xx).astype(np.int32)}
        path = os.path.join(tmp, name + '.sgz')
        with NumpyConverter(vol, ilines=il, xlines=xl, trace_headers=headers) as c:
            quiet(c.run, path, bits_per_voxel=bits, blockshape=blockshape)
        out[name] = (path, vol)

    def segy_file(name, sgy, **kw):
        path = os.path.join(tmp, name + '.sgz')
        with quiet(SegyConverter, os.path.join('test_data', sgy)) as c:
            quiet(c.run, path, **kw)
        out[name] = (path, None)

    def fixture(key, name):
        path = os.path.join(tmp, 'fx_' + name)
        shutil.copyfile(os.path.join('test_data', name), path)
        out[key] = (path, None)

    makers = {
        'np8': lambda: numpy_file('np8', (13, 10, 300), 8),                  # 4x3 chunks of 2 blocks, 5 arrays
        'np4': lambda: numpy_file('np4', (9, 21, 70), 4),                    # 3x6 chunks of 1 block
        'np4big': lambda: numpy_file('np4big', (21, 25, 70), 4),              # 6x7 chunks: more ranges than workers
        'npzsbig': lambda: numpy_file('npzsbig', (260, 270, 6), 2, (64, 64, 4), extra_headers=False),  # 5x5 tiles x 2
        'np16': lambda: numpy_file('np16', (6, 7, 300), 16),                 # 2x2 chunks of 3 blocks
        'npzs': lambda: numpy_file('npzs', (70, 66, 10), 2, (64, 64, 4)),    # z-slice layout, 2x2 tiles x 3
        'np88': lambda: numpy_file('np88', (13, 10, 70), 8, (8, 8, -1)),     # 8x8x64 bricks, 2x2x2
        'reg': lambda: segy_file('reg', 'small.sgy', bits_per_voxel=8),
        'thorough': lambda: segy_file('thorough', 'small.sgy', bits_per_voxel=4, header_detection='thorough'),
        'exhaustive': lambda: segy_file('exhaustive', 'small.sgy', bits_per_voxel=4, header_detection='exhaustive'),
        'strip': lambda: segy_file('strip', 'small.sgy', bits_per_voxel=4, header_detection='strip'),
        'irregular': lambda: segy_file('irregular', 'small-irregular.sgy', bits_per_voxel=8),
        'hole': lambda: segy_file('hole', 'small_hole.sgy', bits_per_voxel=8),
        'dec': lambda: segy_file('dec', 'small-dec.sgy', bits_per_voxel=8),
        '2d16': lambda: segy_file('2d16', 'small-2d.sgy', bits_per_voxel=8),
        '2d4': lambda: segy_file('2d4', 'small-2d.sgy', bits_per_voxel=8, blockshape=(1, 4, -1)),
        'fx_v001': lambda: fixture('fx_v001', 'small_v0.0.1.sgz'),
        'fx_zs': lambda: fixture('fx_zs', 'small_2bit-64x64.sgz'),
        'fx_88': lambda: fixture('fx_88', 'small_8bit-8x8.sgz'),
        'fx_2d': lambda: fixture('fx_2d', 'small-2d.sgz'),
        'fx_hole': lambda: fixture('fx_hole', 'small_hole.sgz'),
        'fx_025': lambda: fixture('fx_025', 'small_025bit.sgz'),
        'fx_dec': lambda: fixture('fx_dec', 'small-dec_8bit.sgz'),
    }
    for w in which:
        makers[w]()
    return out


# ----------------------------------------------------------------------------------------------
# Calls, results, truth
# ----------------------------------------------------------------------------------------------

def norm(v):
    if isinstance(v, np.ndarray):
        return ('arr', v.dtype.str, v.shape, np.ascontiguousarray(v).tobytes())
    if isinstance(v, dict):
        return ('dict', tuple(sorted((int(k), int(x)) for k, x in v.items())))
    if isinstance(v, (list, tuple)):
        return ('seq', tuple(norm(x) for x in v))
    if isinstance(v, (int, np.integer)):
        return ('int', int(v))
    return ('other', repr(v))


def do_call(reader, call):
    name, args, kwargs = call
    return norm(getattr(reader, name)(*args, **kwargs))


def call_str(call):
    name, args, kwargs = call
    return f"{name}{args}{kwargs if kwargs else ''}"


def sample_calls(m, rich=True):
    c = []
    if m.is_2d:
        n = m.tracecount
        for i in sorted({0, 3, n // 2, n - 1}):
            c.append(('get_trace', (i,), {}))
        c.append(('read_subplane', (0, n, 0, m.n_s), {}))
        c.append(('read_subplane', (2, min(n, 19), 3, min(m.n_s, 41)), {}))
        c.append(('read_subplane', (n - 1, n, m.n_s - 1, m.n_s), {}))
        return c
    n_il, n_xl, n_s = m.n_il, m.n_xl, m.n_s
    for i in sorted({0, 1, n_il // 2, n_il - 1}):
        c.append(('read_inline', (i,), {}))
    for x in sorted({0, n_xl // 2, n_xl - 1}):
        c.append(('read_crossline', (x,), {}))
    for z in sorted({0, min(5, n_s - 1), n_s // 2, n_s - 1}):
        c.append(('read_zslice', (z,), {}))
    c.append(('read_volume', (), {}))
    boxes = [(1, min(7, n_il), 2, min(9, n_xl), 3, min(n_s, 41)),
             (n_il - 1, n_il, n_xl - 1, n_xl, n_s - 1, n_s),
             (0, n_il, n_xl // 2, n_xl // 2 + 1, 0, n_s),
             (n_il // 2, n_il // 2 + 1, 0, n_xl, n_s // 3, n_s // 3 + 9)]
    for b in boxes:
        c.append(('read_subvolume', b, {}))
    n_tr = m.tracecount
    for i in sorted({0, min(n_xl + 1, n_tr - 1), n_tr // 2, n_tr - 1}):
        c.append(('get_trace', (i,), {}))
    c.append(('get_trace', (n_tr // 3, 3, min(17, n_s)), {}))
    c.append(('get_trace', (n_tr - 2, max(0, n_s - 5), n_s), {}))
    if rich:
        for d in sorted({0, -1, 2, -(n_xl - 1), n_il - 1}):
            c.append(('read_correlated_diagonal', (d,), {}))
        for d in sorted({0, min(n_il, n_xl), n_il + n_xl - 2}):
            c.append(('read_anticorrelated_diagonal', (d,), {}))
        c.append(('read_correlated_diagonal', (1, 1, 3, 2, 11), {}))
    return c


def header_calls(m):
    c = []
    if m.n_arrays == 0:
        return [('gen_trace_header', (0,), {}), ('gen_trace_header', (m.tracecount - 1,), {})]
    n = m.tracecount
    for i in sorted({0, n // 2, n - 1}):
        c.append(('gen_trace_header', (i,), {}))
    c.append(('gen_trace_header', (1,), {'load_all_headers': True}))
    fields = [k for k, _ in m.stored]
    for k in fields[:3] + fields[-1:]:
        c.append(('get_tracefield_values', (k,), {}))
    c.append(('get_tracefield_1d', (fields[0],), {}))
    return c


def truth_table(m, calls):
    """What a plain, fresh, local reader returns for each call (one reader per call); calls that do not
    apply to the file (they raise on the intact file) are dropped"""
    table = {}
    for call in calls:
        try:
            with SgzReader(m.path) as r:
                table[call_key(call)] = do_call(r, call)
        except Exception as e:
            note('inapplicable-calls')
            if os.environ.get('DEMO_VERBOSE'):
                print('inapplicable:', os.path.basename(m.path), call_str(call), type(e).__name__, e)
    return table


def call_key(call):
    name, args, kwargs = call
    return (name, tuple(args), tuple(sorted(kwargs.items())))


def independent_volume(m):
    """Decodes a default-layout (4x4 columns) file without the library: unit by unit with zfpy"""
    assert m.bs[0] == 4 and m.bs[1] == 4 and not m.is_2d
    with open(m.path, 'rb') as f:
        raw = f.read()
    chunk_bytes = BLOCK * m.nb[2]
    unit_bytes = int(64 * m.rate) // 8
    ztype = zfpy.dtype_to_ztype(np.dtype('float32'))
    vol = np.zeros(m.sp, dtype=np.float32)
    for ic in range(m.nb[0]):
        for xc in range(m.nb[1]):
            base = m.data_start + (ic * m.nb[1] + xc) * chunk_bytes
            for u in range(m.sp[2] // 4):
                unit = raw[base + u * unit_bytes: base + (u + 1) * unit_bytes]
                vol[4 * ic:4 * ic + 4, 4 * xc:4 * xc + 4, 4 * u:4 * u + 4] = \
                    zfpy._decompress(unit, ztype, (4, 4, 4), rate=m.rate)
    return vol[:m.n_il, :m.n_xl, :m.n_s]


def check_truth_anchor(name, m, source, table):
    """The truth table itself is anchored to an independent decode and to the source array"""
    if m.is_2d or m.bs[0] != 4 or m.bs[1] != 4:
        if source is not None:
            vol = np.frombuffer(table[call_key(('read_volume', (), {}))][3], dtype=np.float32).reshape(source.shape)
            check(np.allclose(vol, source, atol=0.05 * np.abs(source).max()), f'{name}: volume far from its source')
        return
    vol = independent_volume(m)
    if source is not None:
        tol = {16: 1e-3, 8: 2e-2, 4: 0.3}.get(m.rate, 1.0) * np.abs(source).max()
        check(np.allclose(vol, source, atol=tol), f'{name}: independent decode far from the source array')
    for key, val in table.items():
        fn, args = key[0], key[1]
        if fn == 'read_volume':
            exp = vol
        elif fn == 'read_inline':
            exp = vol[args[0]]
        elif fn == 'read_crossline':
            exp = vol[:, args[0]]
        elif fn == 'read_zslice':
            exp = vol[:, :, args[0]]
        elif fn == 'read_subvolume':
            exp = vol[args[0]:args[1], args[2]:args[3], args[4]:args[5]]
        elif fn == 'get_trace' and m.structured:
            i = args[0]
            exp = vol[i // m.n_xl, i % m.n_xl]
            if len(args) == 3:
                exp = exp[args[1]:args[2]]
        else:
            continue
        got = np.frombuffer(val[3], dtype=np.dtype(val[1])).reshape(val[2])
        check(got.shape == exp.shape and np.array_equal(got, exp),
              f'{name}: {fn}{args} of a plain reader differs from the independent decode')
        note('anchored')


# ----------------------------------------------------------------------------------------------
# C07: which bytes a call may touch
# ----------------------------------------------------------------------------------------------

def box_blocks(m, box):
    """Data-section block numbers which hold samples of the box (il0, il1, xl0, xl1, z0, z1)"""
    il0, il1, xl0, xl1, z0, z1 = box
    bs, nb = m.bs, m.nb
    blocks = set()
    for i in range(il0 // bs[0], (il1 - 1) // bs[0] + 1):
        for x in range(xl0 // bs[1], (xl1 - 1) // bs[1] + 1):
            for z in range(z0 // bs[2], (z1 - 1) // bs[2] + 1):
                blocks.add((i * nb[1] + x) * nb[2] + z)
    return blocks


def expected_blocks(m, call):
    name, args, kwargs = call
    if m.is_2d:
        if name == 'get_trace':
            return box_blocks(m, (0, 1, args[0], args[0] + 1, 0, m.n_s))
        if name == 'read_subplane':
            return box_blocks(m, (0, 1, args[0], args[1], args[2], args[3]))
        return None
    if name == 'read_inline':
        return box_blocks(m, (args[0], args[0] + 1, 0, m.n_xl, 0, m.n_s))
    if name == 'read_crossline':
        return box_blocks(m, (0, m.n_il, args[0], args[0] + 1, 0, m.n_s))
    if name == 'read_zslice':
        return box_blocks(m, (0, m.n_il, 0, m.n_xl, args[0], args[0] + 1))
    if name == 'read_volume':
        return box_blocks(m, (0, m.n_il, 0, m.n_xl, 0, m.n_s))
    if name == 'read_subvolume':
        return box_blocks(m, args)
    if name == 'get_trace' and m.structured:
        i = args[0]
        z0, z1 = (args[1], args[2]) if len(args) == 3 else (0, m.n_s)
        return box_blocks(m, (i // m.n_xl, i // m.n_xl + 1, i % m.n_xl, i % m.n_xl + 1, z0, z1))
    return None


def ranges_disjoint(ranges):
    last_end = -1
    for off, n in sorted(ranges):
        if n <= 0:
            continue
        if off < last_end:
            return False
        last_end = off + n
    return True


def blocks_of(m, ranges):
    blocks = set()
    for off, n in ranges:
        if n <= 0:
            continue
        for b in range((off - m.data_start) // BLOCK, (off + n - 1 - m.data_start) // BLOCK + 1):
            blocks.add(b)
    return blocks


def check_open_log(tag, m, log, preload):
    head = [r for r in log if r[0] < m.data_start]
    rest = [r for r in log if r[0] >= m.data_start]
    check(all(off >= 0 and off + n <= m.data_start for off, n in head), f'{tag}: open read across the header boundary {head}')
    if preload:
        check(ranges_disjoint(rest), f'{tag}: preload fetched a byte twice: {rest}')
        covered = sum(n for _, n in rest)
        check(covered == m.n_blocks * BLOCK and blocks_of(m, rest) == set(range(m.n_blocks))
              and all(m.data_start <= off and off + n <= m.data_end for off, n in rest),
              f'{tag}: preload did not fetch exactly the data section: {rest}')
    else:
        check(not rest, f'{tag}: opening touched more than the header blocks: {rest}')


def check_sample_log(tag, m, call, log, preload):
    if preload:
        check(not log, f'{tag}: {call_str(call)} went to storage although preloaded: {log}')
        return
    check(all(m.data_start <= off and off + n <= m.data_end for off, n in log),
          f'{tag}: {call_str(call)} read outside the data section: {log}')
    check(ranges_disjoint(log), f'{tag}: {call_str(call)} fetched a byte twice: {sorted(log)}')
    exp = expected_blocks(m, call)
    if exp is not None:
        got = blocks_of(m, log)
        check(got == exp, f'{tag}: {call_str(call)} touched blocks {sorted(got)} but its samples live in {sorted(exp)}')
        note('c07-block-sets')


def check_header_log(tag, m, call, log):
    name, args, kwargs = call
    check(all(off >= m.data_end for off, n in log), f'{tag}: {call_str(call)} read sample data: {log}')
    if name == 'gen_trace_header' and m.structured and not kwargs.get('load_all_headers'):
        exp = sorted((off + 4 * args[0], 4) for off in m.array_offsets)
        check(sorted(log) == exp, f'{tag}: {call_str(call)} should cost 4 bytes per stored array, read {sorted(log)}')
        note('c07-header-4-bytes')
    elif name in ('get_tracefield_values', 'get_tracefield_1d') and m.structured:
        off = dict(m.stored)[int(args[0])]
        check(sorted(log) == [(off, m.hlen)], f'{tag}: {call_str(call)} should read one array, read {sorted(log)}')
    else:
        # whole arrays (and the trace mask of an irregular file): never the same array twice except the mask
        starts = [off for off, n in log]
        check(all(off in m.array_offsets for off in starts), f'{tag}: {call_str(call)} read odd ranges {log}')
        check(all(n == m.hlen for _, n in log), f'{tag}: {call_str(call)} read odd lengths {log}')


# ----------------------------------------------------------------------------------------------
# Openers
# ----------------------------------------------------------------------------------------------

class Opened:
    """A reader plus the handle its I/O goes through"""
    def __init__(self, reader, handle):
        self.reader, self.handle = reader, handle

    def close(self):
        try:
            self.reader.close()
        except Exception:
            pass
        try:
            self.handle.close()
        except Exception:
            pass


def open_reader(path, kind, handle=None, **kw):
    """kind: 'local' | 'local-preload' | 'blob' | 'blob-preload' | 'local-cache1' | 'blob-cache1' """
    backend, _, opt = kind.partition('-')
    if handle is None:
        handle = CountingFile(path) if backend == 'local' else FakeBlob(path)
    if opt == 'preload':
        kw['preload'] = True
    if opt == 'cache1':
        kw['chunk_cache_size'] = 1
    try:
        return Opened(SgzReader(handle, **kw), handle)
    except BaseException:
        handle.close()
        raise


def new_handle(path, backend, length=None):
    if backend == 'local':
        return CountingFile(path)
    return FakeBlob(path, length)


# ----------------------------------------------------------------------------------------------
# Scenarios
# ----------------------------------------------------------------------------------------------

def mask_range(m):
    if m.is_2d or m.structured:
        return None
    off = dict(m.stored).get(189)
    return None if off is None else (off, m.hlen)


def split_log(m, log):
    """(data-section ranges, footer ranges) of a call on an irregular file: the trace mask may be fetched once"""
    mr = mask_range(m)
    data, foot = [], []
    for r in log:
        (foot if r[0] >= m.data_end else data).append(r)
    return data, foot, mr


def is_header_call(call):
    return call[0] in ('gen_trace_header', 'get_tracefield_values', 'get_tracefield_1d')


def scenario_c07(name, m, table, kinds, calls):
    """Fresh reader per call: right value, and only the bytes the property allows"""
    for kind in kinds:
        preload = kind.endswith('preload')
        for call in calls:
            key = call_key(call)
            if key not in table:
                continue
            tag = f'{name}/{kind}'
            o = open_reader(m.path, kind)
            try:
                check_open_log(tag, m, list(o.handle.log), preload)
                del o.handle.log[:]
                got = do_call(o.reader, call)
                check(got == table[key], f'{tag}: {call_str(call)} returned something else than a plain reader')
                log = list(o.handle.log)
                if is_header_call(call):
                    check_header_log(tag, m, call, log)
                else:
                    data, foot, mr = split_log(m, log)
                    check(foot in ([], [mr]), f'{tag}: {call_str(call)} read footer ranges {foot}')
                    check_sample_log(tag, m, call, data, preload)
                # the same call again on the same reader: same value, and with preload still no I/O
                del o.handle.log[:]
                check(do_call(o.reader, call) == table[key], f'{tag}: {call_str(call)} differs the second time')
                if preload and not is_header_call(call):
                    data, foot, mr = split_log(m, list(o.handle.log))
                    check(not data, f'{tag}: {call_str(call)} went back to storage after preload: {data}')
                note('c07-calls')
            finally:
                o.close()


def scenario_orders(name, m, table, kinds, calls, policies):
    """Remote backend: make the parallel range reads complete in chosen orders"""
    for kind in kinds:
        for policy in policies:
            sched = Scheduler(policy, seed=len(name))
            try:
                handle = FakeBlob(m.path)
                handle.scheduler = sched
                o = open_reader(m.path, kind, handle=handle)
                try:
                    for call in calls:
                        key = call_key(call)
                        if key not in table:
                            continue
                        got = do_call(o.reader, call)
                        check(got == table[key],
                              f'{name}/{kind}: {call_str(call)} wrong when range reads complete in {policy} order')
                        note('ordered-calls')
                finally:
                    o.close()
            finally:
                sched.close()


def spread(items, cap):
    if cap is None or len(items) <= cap:
        return items
    return [items[(i * (len(items) - 1)) // (cap - 1)] for i in range(cap)]


def scenario_faults(name, m, table, kinds, calls, modes, policy=None, open_faults=True, max_ranges=None):
    """One failing range read per run: every range a call (or the opening) makes, every failure mode"""
    for kind in kinds:
        backend = kind.partition('-')[0]
        tag = f'{name}/{kind}'
        sched = Scheduler(policy, seed=7) if (policy and backend == 'blob') else None
        try:
            # which ranges does opening make, and each call?
            o = open_reader(m.path, kind)
            open_ranges = sorted(set(o.handle.log))
            o.close()
            if open_faults:
                for rng in open_ranges:
                    for mode in modes:
                        fault = Fault(rng, mode)
                        handle = new_handle(m.path, backend)
                        handle.fault = fault
                        handle.scheduler = sched
                        try:
                            o = open_reader(m.path, kind, handle=handle)
                        except Exception:
                            note('open-faults-raised')
                            continue
                        try:
                            check(fault.hits == 0 or False,
                                  f'{tag}: opening survived a {mode} fault on range {rng}')
                            for call in calls[:3]:
                                if call_key(call) in table:
                                    check(do_call(o.reader, call) == table[call_key(call)],
                                          f'{tag}: {call_str(call)} wrong after a {mode} fault on open range {rng}')
                        finally:
                            o.close()
            for call in calls:
                key = call_key(call)
                if key not in table:
                    continue
                o = open_reader(m.path, kind)
                try:
                    del o.handle.log[:]
                    do_call(o.reader, call)
                    call_ranges = spread(sorted(set(o.handle.log)), max_ranges)
                finally:
                    o.close()
                for rng in call_ranges:
                    for mode in modes:
                        o = open_reader(m.path, kind)
                        try:
                            fault = Fault(rng, mode)
                            o.handle.fault = fault
                            o.handle.scheduler = sched
                            try:
                                got = do_call(o.reader, call)
                            except Exception:
                                got = None
                                note('call-faults-raised')
                            if got is not None:
                                check(fault.hits == 0, f'{tag}: {call_str(call)} returned although range {rng} '
                                                       f'failed ({mode})')
                                check(got == table[key], f'{tag}: {call_str(call)} returned a wrong value with a '
                                                         f'{mode} fault armed on {rng}')
                            # the fault is spent: the same reader must now give the true answer, and so must others
                            o.handle.scheduler = None
                            check(do_call(o.reader, call) == table[key],
                                  f'{tag}: {call_str(call)} wrong on the retry after a {mode} fault on {rng}')
                            other = calls[(calls.index(call) + 1) % len(calls)]
                            if call_key(other) in table:
                                check(do_call(o.reader, other) == table[call_key(other)],
                                      f'{tag}: {call_str(other)} wrong after {call_str(call)} failed ({mode} on {rng})')
                        finally:
                            o.close()
        finally:
            if sched is not None:
                sched.close()


def emulator_call(em, m, call):
    """The segyio-style spelling of a reader call, or None"""
    name, args, kwargs = call
    if kwargs:
        return None
    if name == 'get_trace' and len(args) == 1:
        return norm(em.trace[args[0]])
    if name == 'gen_trace_header':
        return norm(em.header[args[0]])
    if m.is_2d:
        return None
    if name == 'read_inline':
        return norm(em.iline[m.ilines[args[0]]])
    if name == 'read_crossline':
        return norm(em.xline[m.xlines[args[0]]])
    if name == 'read_zslice':
        return norm(em.depth_slice[args[0]])
    if name == 'read_subvolume':
        il0, il1, xl0, xl1, z0, z1 = args
        zs = [int(v) for v in em.zslices]
        if len(zs) < 2 or len(m.ilines) < 2 or len(m.xlines) < 2:
            return None
        dil, dxl, dz = m.ilines[1] - m.ilines[0], m.xlines[1] - m.xlines[0], zs[1] - zs[0]
        if dz == 0 or [float(v) for v in zs] != [float(v) for v in em.zslices]:
            return None
        return norm(em.subvolume[m.ilines[il0]:m.ilines[il1 - 1] + dil,
                                 m.xlines[xl0]:m.xlines[xl1 - 1] + dxl,
                                 zs[z0]:zs[z1 - 1] + dz])
    return None


def scenario_history(name, m, table, calls, seed, steps, kinds=None):
    """Long mixed histories over many readers and emulators of one file; bystanders come and go"""
    rnd = random.Random(seed)
    kinds = kinds or ['local', 'local-preload', 'local-cache1', 'blob', 'blob-preload', 'blob-cache1']
    calls = [c for c in calls if call_key(c) in table]

    def make_actor(kind):
        if kind == 'emulator':
            return ('emulator', seismic_zfp.open(m.path))
        if kind == 'emulator-cache1':
            return ('emulator', seismic_zfp.open(m.path, chunk_cache_size=1))
        if kind == 'path':
            return ('reader', SgzReader(m.path))
        if kind == 'path-preload':
            return ('reader', SgzReader(m.path, preload=True))
        return ('opened', open_reader(m.path, kind))

    def close_actor(actor):
        what, obj = actor
        if what == 'emulator':
            obj.__exit__(None, None, None)
        else:
            obj.close()

    all_kinds = kinds + ['emulator', 'emulator-cache1', 'path', 'path-preload']
    actors = [make_actor(k) for k in all_kinds]
    bystanders = []
    try:
        for step in range(steps):
            p = rnd.random()
            if p < 0.08:
                bystanders.append(make_actor(rnd.choice(all_kinds)))
            elif p < 0.14 and bystanders:
                close_actor(bystanders.pop(rnd.randrange(len(bystanders))))
            elif p < 0.18:
                i = rnd.randrange(len(actors))
                close_actor(actors[i])
                actors[i] = make_actor(all_kinds[i])
            pool = actors + bystanders
            a = rnd.randrange(len(pool))
            what, obj = pool[a]
            call = rnd.choice(calls)
            key = call_key(call)
            if what == 'emulator':
                got = emulator_call(obj, m, call) if rnd.random() < 0.7 else None
                if got is None:
                    got = do_call(obj, call)
            else:
                got = do_call(obj.reader if what == 'opened' else obj, call)
            check(got == table[key], f'{name}: step {step} of history {seed}: {call_str(call)} on actor {a} '
                                     f'({what}) differs from a plain fresh reader')
            note('history-steps')
    finally:
        for actor in actors + bystanders:
            try:
                close_actor(actor)
            except Exception:
                pass


def truncation_lengths(m, cap, seed=1):
    ls = {0, 1, 3, 4, 100, 979, 2048, BLOCK - 1, BLOCK, BLOCK + 1, m.data_start - 1, m.data_start, m.data_start + 1,
          m.size - 1, m.size - 4, m.size - 511, m.size - 512, m.size - 513}
    for b in range(m.n_blocks + 1):
        ls.update({m.data_start + b * BLOCK - 1, m.data_start + b * BLOCK, m.data_start + b * BLOCK + 1,
                   m.data_start + b * BLOCK + 17, m.data_start + b * BLOCK + BLOCK // 2})
    for off in m.array_offsets:
        ls.update({off - 1, off, off + 1, off + 3, off + 4, off + 5, off + m.hlen // 2, off + m.hlen - 1,
                   off + m.hlen, off + m.hlen + 1})
    ls = sorted(x for x in ls if 0 <= x < m.size)
    must = [x for x in ls if x <= m.data_start + 1 or x >= m.data_end - 1]
    rest = [x for x in ls if x not in must]
    rnd = random.Random(seed)
    if len(must) > cap // 2:
        must = sorted(rnd.sample(must, cap // 2))
    if len(rest) > cap - len(must):
        rest = rnd.sample(rest, cap - len(must))
    return sorted(must + rest)


def scenario_truncation(name, m, table, kinds, calls, lengths, tmp, zero_hash=False):
    """A file cut at any length: whatever opens and answers must answer what the whole file answers"""
    calls = [c for c in calls if call_key(c) in table]
    with open(m.path, 'rb') as f:
        whole = f.read()
    if zero_hash:     # the source-data hash is the last thing a conversion writes, in place
        whole = whole[:960] + bytes(20) + whole[980:]
    for length in lengths:
        part = os.path.join(tmp, f'part_{name}_{length}.sgz')
        with open(part, 'wb') as f:
            f.write(whole[:length])
        for kind in kinds:
            tag = f'{name} cut at {length}/{m.size} ({kind})'
            try:
                if kind == 'emulator':
                    o = SegyioEmulator(part)
                    closer = lambda: o.__exit__(None, None, None)
                    reader = o
                else:
                    o = open_reader(part, kind)
                    closer = o.close
                    reader = o.reader
            except Exception:
                note('partial-open-raised')
                continue
            try:
                for call in calls:
                    try:
                        if kind == 'emulator':
                            got = emulator_call(reader, m, call)
                            if got is None:
                                got = do_call(reader, call)
                        else:
                            got = do_call(reader, call)
                    except Exception:
                        note('partial-call-raised')
                        continue
                    note('partial-call-returned')
                    check(got == table[call_key(call)], f'{tag}: {call_str(call)} returned something the whole '
                                                        f'file does not hold')
            finally:
                try:
                    closer()
                except Exception:
                    pass
        os.remove(part)


def prepare(tmp, names):
    """Build the files, the truth tables and anchor them"""
    files = build_files(tmp, names)
    ctx = {}
    for name, (path, source) in files.items():
        m = file_meta(path)
        scalls = sample_calls(m)
        hcalls = header_calls(m)
        table = truth_table(m, scalls + hcalls)
        check_truth_anchor(name, m, source, table)
        ctx[name] = (m, table, [c for c in scalls if call_key(c) in table], [c for c in hcalls if call_key(c) in table])
    return ctx


def run_demo(body):
    tmp = tempfile.mkdtemp(prefix='sgzdemo_')
    TMPDIRS.append(tmp)
    try:
        body(tmp)
    except SystemExit:
        raise
    except BaseException:
        traceback.print_exc()
        FAILURES.append('demonstration crashed')
    finally:
        shutil.rmtree(tmp, ignore_errors=True)
    finish()


# ----------------------------------------------------------------------------------------------
# Demonstration 3: sample reads which are put together from many range reads
#                  (crosslines, z-slices in both layouts, sub-volumes, traces, diagonals, cropping)
# ----------------------------------------------------------------------------------------------

from seismic_zfp.cropping import SgzCropper


def crop_checks(name, m, table, tmp):
    """Cropping copies compressed columns through the same gathering code: local and remote must write the
    same file, and it must read back as the corresponding piece of the original"""
    il1, xl1 = 4 * (m.n_il // 4), 4 * (m.n_xl // 4)
    if il1 < 8 or xl1 < 8 or m.bs[0] != 4 or m.bs[1] != 4 or m.n_arrays == 0:
        return
    outs = []
    for kind in ('local', 'blob'):
        handle = new_handle(m.path, kind)
        out = os.path.join(tmp, f'crop_{name}_{kind}.sgz')
        cropper = SgzCropper(handle)
        quiet(cropper.write_cropped_file_by_indexes, out, (4, il1), (4, xl1), (0, m.n_s))
        handle.close()
        with open(out, 'rb') as f:
            outs.append(f.read())
        with SgzReader(m.path) as whole, SgzReader(out) as part:
            check(np.array_equal(part.read_volume(), whole.read_subvolume(4, il1, 4, xl1, 0, m.n_s)),
                  f'{name}: file cropped through the {kind} backend does not read back as the original')
        os.remove(out)
    check(outs[0] == outs[1], f'{name}: cropping through the local and the remote backend wrote different files')
    note('crops')


def body(tmp):
    names = ['np8', 'np4', 'np4big', 'np16', 'npzs', 'npzsbig', 'np88', 'reg', 'irregular', 'hole', 'dec',
             'fx_v001', 'fx_zs', 'fx_88', 'fx_025', 'fx_hole']
    ctx = prepare(tmp, names)
    modes = ['raise', 'raise_late', 'short1', 'half', 'empty']
    for name in ('np4big', 'npzsbig'):     # informational: how this tree goes about it
        m = ctx[name][0]
        for kind in ('local', 'blob'):
            o = open_reader(m.path, kind)
            n_open = len(o.handle.log)
            if kind == 'local':
                o.handle.threads = set()
                real_read = o.handle.read
                o.handle.read = lambda n=-1, o=o, real_read=real_read: (o.handle.threads.add(threading.get_ident()),
                                                                         real_read(n))[1]
            o.reader.read_zslice(3)
            print(f'  z-slice of {name}, {kind}: {len(o.handle.log) - n_open} range reads on '
                  f'{len(o.handle.threads - {threading.get_ident()})} worker thread(s)')
            o.close()
    for name, (m, table, scalls, hcalls) in ctx.items():
        big = m.n_blocks > 30
        calls = scalls if not big else scalls[::2]
        # values and byte accounting on every kind of reader
        scenario_c07(name, m, table, ['local', 'blob', 'blob-preload', 'local-cache1', 'blob-cache1'],
                     calls + hcalls[:2])
        # the remote range reads completing in awkward orders
        scenario_orders(name, m, table, ['blob', 'blob-cache1'], calls[::4] if big else calls[::3],
                        ['lifo', 'high', 'low', 'random'])
        # each range read a call makes failing in every way, local and remote
        scenario_faults(name, m, table, ['local', 'blob'], calls[::2], modes, open_faults=False,
                        max_ranges=4 if big else 7)
        scenario_faults(name, m, table, ['blob'], calls[1::5], ['raise', 'short1', 'empty'], policy='lifo',
                        open_faults=False, max_ranges=3)
        scenario_faults(name, m, table, ['blob'], calls[2::5], ['raise_late', 'half'], policy='random',
                        open_faults=False, max_ranges=3)
        crop_checks(name, m, table, tmp)
        print(f'  {name}: accounting, orders, faults done [{time.time() - T0:.1f}s]')
    for name in ['np8', 'np4big', 'npzs', 'np88', 'irregular', 'fx_zs', 'fx_025', 'fx_hole']:
        m, table, scalls, hcalls = ctx[name]
        for seed in (21, 22, 23):
            scenario_history(name, m, table, scalls + hcalls[:3], seed, 100)
        print(f'  {name}: histories done [{time.time() - T0:.1f}s]')
    for name, (m, table, scalls, hcalls) in ctx.items():
        few = scalls[::3] + hcalls[:1]
        scenario_truncation(name, m, table, ['local', 'blob', 'emulator', 'blob-cache1'], few,
                            truncation_lengths(m, 40, seed=4), tmp)
        scenario_truncation(name, m, table, ['blob'], few, truncation_lengths(m, 8, seed=9), tmp, zero_hash=True)
        print(f'  {name}: partial files done [{time.time() - T0:.1f}s]')


run_demo(body)
