import sys, os; sys.path.insert(0, os.getcwd())
# demo3 - change3 (streaming cropper, vectorised / column-wise writing re-blocker with checked, clamped source reads).
# Exits 0 on the unchanged tree and with change3.diff applied.  What it does:
#  * builds sources of several bit rates and layouts (plus fixtures) and crops them by inline / crossline / depth ranges,
#    aligned and unaligned, from a path, a preloaded reader and an open file handle; the output must equal the crop as the
#    FORMAT defines it (computed in here from the source bytes), and read back as the sub-volume of the source;
#  * re-blocks 2-bit sources (fixture, 13x7, 65x66, 64x64, 70x130, and 1030 samples = two disk blocks per chunk) to the
#    64x64x4 layout; the output must equal the format-level definition of that layout computed in here, and read back
#    (volume, z-slices) like the source;
#  * C18 for both writers: the writes on the output are recorded; every (sampled when there are hundreds) prefix of that
#    sequence and many byte lengths of the finished file are read back with a battery of calls: raise, or same as complete;
#  * awkward sources: the k-th read() of the source raises; the source is itself truncated (in the data, in the footer):
#    the copy either completes with the complete output or raises leaving a prefix of it that never reads back as data.
import builtins
import hashlib as _real_hashlib
import random
import shutil
import tempfile
import threading
import time
import traceback
import warnings

import numpy as np
import segyio
import zfpy as _real_zfpy

import seismic_zfp
assert os.path.realpath(seismic_zfp.__file__).startswith(os.path.realpath(os.getcwd()) + os.sep), \
    "seismic_zfp is not imported from the current directory: %s" % seismic_zfp.__file__

import seismic_zfp.conversion_utils as cu
import seismic_zfp.conversion as conv
import seismic_zfp.cropping as crop
from seismic_zfp.read import SgzReader
from seismic_zfp.headers import HeaderwordInfo
from seismic_zfp.utils import (define_blockshape_3d, CubeWithAxes, Geometry3d, generate_fake_seismic)


# --------------------------------------------------------------------------------------------------------------------
# The installed distribution's version string cannot be parsed here: stub the lookup so that the writers run
class _D:
    version = '0.4.1'


class _P:
    @staticmethod
    def get_distribution(name):
        return _D


cu.pkg_resources = _P

FAILURES = []
CHECKS = [0]


def check(cond, msg):
    CHECKS[0] += 1
    if not cond:
        FAILURES.append(msg)
        print("FAIL:", msg)
    return cond


def quiet(fn, *a, **k):
    return fn(*a, **k)


# The library prints progress: silence it (module globals shadow the builtin)
import seismic_zfp.utils as _utils
cu.print = conv.print = crop.print = _utils.print = lambda *a, **k: None


# --------------------------------------------------------------------------------------------------------------------
# Decision points.  Three kinds of step exist in a conversion whatever threads execute them:
#   'produce'  : the producer hashes one plane (set) of input, just before handing it on
#   'compress' : one call of zfpy.compress_numpy
#   'write'    : one call of write() on an output file handle
# The demonstration intercepts all three (hashlib and zfpy as seen by conversion_utils, open() as seen by
# conversion / cropping) and lets a Schedule decide how long each step is held back.
class Schedule:
    name = 'free'
    header_len = 8192

    def __init__(self):
        self.cv = threading.Condition()
        self.counts = {'produce': 0, 'compress': 0, 'write': 0, 'compressed_bytes': 0, 'written_bytes': 0,
                       'item_len': 0}
        self.stalls = 0

    def point(self, role):
        self.before(role)
        with self.cv:
            self.counts[role] += 1
            self.cv.notify_all()

    def done(self, role, nbytes):
        with self.cv:
            if role == 'compress':
                self.counts['compressed_bytes'] += nbytes
                self.counts['item_len'] = nbytes
            elif role == 'write':
                self.counts['written_bytes'] += nbytes
            self.cv.notify_all()

    @classmethod
    def backlog(cls, c):
        """Bytes that are compressed but not yet handed to write()"""
        return c['compressed_bytes'] - max(0, c['written_bytes'] - cls.header_len)

    def wait_until(self, pred, timeout):
        """Hold the calling step until pred(counts) or until the (bounded) stall time is over.  The bound makes an
        infeasible wish (e.g. 'the producer finishes first' with a full queue) harmless: it degenerates to a stall,
        which is itself an interesting interleaving (everybody else runs until blocked)."""
        with self.cv:
            if not self.cv.wait_for(lambda: pred(self.counts), timeout):
                self.stalls += 1

    def before(self, role):
        pass


class ProducerRunsAhead(Schedule):
    """Compressor and writer are held at their first steps until the producer is done (or blocked on a full queue)"""
    name = 'producer-runs-ahead'

    def __init__(self, n_produce, stall=0.12):
        super().__init__()
        self.n, self.stall = n_produce, stall

    def before(self, role):
        if role in ('compress', 'write') and self.counts[role] <= 1:
            self.wait_until(lambda c: c['produce'] >= self.n, self.stall)


class CompressorRunsAhead(Schedule):
    """The writer is held (after the header) until the compressor has compressed everything, or everybody in front
    of it is blocked on full queues"""
    name = 'compressor-runs-ahead'

    def __init__(self, n_items, stall=0.12):
        super().__init__()
        self.n, self.stall = n_items, stall

    def before(self, role):
        if role == 'write' and self.counts['write'] == 1:
            self.wait_until(lambda c: c['compress'] >= self.n and c['compressed_bytes'] > 0, self.stall)


class WriterStarved(Schedule):
    """The writer is slowest: every write is held until three more items are waiting (or everybody else is blocked):
    both queues run full, producer and compressor block in put()"""
    name = 'writer-starved'

    def __init__(self, stall=0.015):
        super().__init__()
        self.stall = stall

    def before(self, role):
        if role == 'write':
            self.wait_until(lambda c: c['item_len'] > 0 and self.backlog(c) >= 3 * c['item_len'], self.stall)


class CompressorStarved(Schedule):
    """The compressor is slowest: the writer always finds an empty queue, the producer a full one"""
    name = 'compressor-starved'

    def __init__(self, n_produce, stall=0.015):
        super().__init__()
        self.n, self.stall = n_produce, stall

    def before(self, role):
        if role == 'compress':
            self.wait_until(lambda c: c['produce'] >= self.n and self.backlog(c) == 0, self.stall)


class ProducerStarved(Schedule):
    """The producer is slowest: it moves on only when everything compressed so far reached the file and then some:
    the queues are empty almost always and both consumers sit in get()"""
    name = 'producer-starved'

    def __init__(self, stall=0.006):
        super().__init__()
        self.stall = stall

    def before(self, role):
        if role == 'produce':
            self.wait_until(lambda c: False, self.stall)


class Jitter(Schedule):
    """Seeded pseudo-random delays, one generator per kind of step (so the sequence of delays does not depend on
    which thread gets there first)"""

    def __init__(self, seed):
        super().__init__()
        self.name = 'jitter-%d' % seed
        self.rng = {r: random.Random(seed * 7919 + i) for i, r in enumerate(('produce', 'compress', 'write'))}

    def before(self, role):
        d = self.rng[role].choice((0, 0, 0, 0.0005, 0.002, 0.005))
        if d:
            time.sleep(d)


CURRENT = [Schedule()]


def point(role):
    CURRENT[0].point(role)


def done(role, nbytes):
    CURRENT[0].done(role, nbytes)


class _HashWrap:
    def __init__(self, real):
        self.real = real

    def update(self, data):
        point('produce')
        self.real.update(data)

    def digest(self):
        return self.real.digest()

    def hexdigest(self):
        return self.real.hexdigest()


class _HashShim:
    @staticmethod
    def new(name, *a, **k):
        return _HashWrap(_real_hashlib.new(name, *a, **k))

    @staticmethod
    def sha1(*a, **k):
        return _HashWrap(_real_hashlib.sha1(*a, **k))


class _ZfpShim:
    def __getattr__(self, item):
        return getattr(_real_zfpy, item)

    @staticmethod
    def compress_numpy(*a, **k):
        point('compress')
        out = _real_zfpy.compress_numpy(*a, **k)
        done('compress', len(out))
        return out


cu.hashlib = _HashShim
cu.zfpy = _ZfpShim()


class WriteFault(Exception):
    pass


class Recorder:
    """Everything that is done to the output file(s), in program order"""

    def __init__(self):
        self.lock = threading.Lock()
        self.events = []          # (kind, path, offset, data, thread-id)
        self.fail_at = None       # index (among write calls) of the write that fails
        self.fail_partial = False  # the failing write stores its first half before failing
        self.n_writes = 0

    def writes(self, path=None):
        return [e for e in self.events if e[0] == 'write' and (path is None or e[1] == path)]


class RecFile:
    """A real file whose write() is a decision point, is recorded, and can be made to fail"""

    def __init__(self, f, rec, path):
        self._f, self._rec, self._path = f, rec, path
        self.name = f.name

    def write(self, data):
        point('write')
        data = bytes(data)
        rec = self._rec
        with rec.lock:
            k = rec.n_writes
            rec.n_writes += 1
            failing = rec.fail_at is not None and k == rec.fail_at
            if failing and rec.fail_partial:
                data = data[:len(data) // 2]
            if not failing or rec.fail_partial:
                rec.events.append(('write', self._path, self._f.tell(), data, threading.get_ident()))
                self._f.write(data)
            if failing:
                rec.events.append(('fault', self._path, self._f.tell(), b'', threading.get_ident()))
                raise OSError(28, "No space left on device (injected)")
        done('write', len(data))
        return len(data)

    def flush(self):
        self._f.flush()

    def seek(self, *a):
        return self._f.seek(*a)

    def tell(self):
        return self._f.tell()

    def read(self, *a):
        return self._f.read(*a)

    def close(self):
        with self._rec.lock:
            self._rec.events.append(('close', self._path, None, b'', threading.get_ident()))
        self._f.close()

    def __enter__(self):
        return self

    def __exit__(self, *a):
        self.close()


RECORDER = [Recorder()]


def _shim_open(path, mode='r', *a, **k):
    f = builtins.open(path, mode, *a, **k)
    if 'w' in mode or '+' in mode or 'a' in mode:
        return RecFile(f, RECORDER[0], os.path.realpath(path))
    return f


conv.open = _shim_open
crop.open = _shim_open


def new_recorder():
    RECORDER[0] = Recorder()
    return RECORDER[0]


def replay(writes, n=None):
    """The file content after the first n recorded writes"""
    out = bytearray()
    for (_, _, offset, data, _) in writes[:n]:
        if offset > len(out):
            out.extend(bytes(offset - len(out)))
        out[offset:offset + len(data)] = data
    return bytes(out)


def run_with_watchdog(fn, timeout=120.0):
    """Run fn in a daemon thread.  Returns (finished, result, exception)"""
    box = {}

    def target():
        try:
            box['result'] = fn()
        except BaseException as e:
            box['exc'] = e

    t = threading.Thread(target=target, daemon=True)
    t.start()
    t.join(timeout)
    return (not t.is_alive()), box.get('result'), box.get('exc')


# --------------------------------------------------------------------------------------------------------------------
# Reading back: what a reader returns from a (possibly partial) file
def battery(path, preload=False):
    """name -> value for a fixed list of read calls; an exception is recorded as such"""
    out = {}

    def rec(name, fn):
        try:
            out[name] = ('ok', fn())
        except BaseException as e:
            out[name] = ('raised', type(e).__name__)

    try:
        r = SgzReader(path, preload=preload)
    except BaseException as e:
        return {'open': ('raised', type(e).__name__)}
    try:
        out['open'] = ('ok', (r.n_samples, r.n_xlines, r.n_ilines, r.tracecount, tuple(r.blockshape), r.rate))
        if r.is_3d:
            ni, nx, nz = r.n_ilines, r.n_xlines, r.n_samples
            for i in sorted({0, ni // 2, ni - 1}):
                rec('inline %d' % i, lambda i=i: r.read_inline(i))
            for x in sorted({0, nx // 2, nx - 1}):
                rec('crossline %d' % x, lambda x=x: r.read_crossline(x))
            for z in sorted({0, nz // 2, nz - 1}):
                rec('zslice %d' % z, lambda z=z: r.read_zslice(z))
            rec('volume', lambda: r.read_volume())
            rec('subvolume', lambda: r.read_subvolume(ni // 2, ni, nx // 3, nx, nz // 4, nz))
            if r.structured:
                rec('cd', lambda: r.read_correlated_diagonal(0))
                rec('ad', lambda: r.read_anticorrelated_diagonal(min(ni, nx) - 1))
        else:
            rec('subplane', lambda: r.read_subplane(0, r.tracecount, 0, r.n_samples))
        for t in sorted({0, r.tracecount // 2, r.tracecount - 1}):
            rec('trace %d' % t, lambda t=t: r.get_trace(t))
            rec('header %d' % t, lambda t=t: dict(r.gen_trace_header(t)))
        for tf in (189, 193, 73, 1):
            rec('tracefield %d' % tf, lambda tf=tf: r.get_tracefield_1d(tf))
        rec('variant headers', lambda: (r.read_variant_headers(), {int(k): v for k, v in r.variant_headers.items()})[1])
        rec('text header', lambda: bytes(r.file_text_header))
        rec('binary header', lambda: bytes(r.file_binary_header))
    finally:
        try:
            r.close()
        except BaseException:
            pass
    return out


def same(a, b):
    if isinstance(a, np.ndarray) or isinstance(b, np.ndarray):
        return isinstance(a, np.ndarray) and isinstance(b, np.ndarray) and a.shape == b.shape \
               and a.dtype == b.dtype and np.array_equal(a, b, equal_nan=True)
    if isinstance(a, dict):
        return isinstance(b, dict) and a.keys() == b.keys() and all(same(a[k], b[k]) for k in a)
    if isinstance(a, (tuple, list)):
        return type(a) == type(b) and len(a) == len(b) and all(same(x, y) for x, y in zip(a, b))
    return a == b


def check_partial(partial_bytes, complete, tmpdir, label, preload=False):
    """A partial file either raises or returns exactly what the complete file returns, call by call"""
    p = os.path.join(tmpdir, 'partial.sgz')
    with builtins.open(p, 'wb') as f:
        f.write(partial_bytes)
    got = battery(p, preload=preload)
    ok = True
    for name, (status, value) in got.items():
        if status == 'raised':
            continue
        c = complete.get(name)
        if c is None or c[0] != 'ok' or not same(value, c[1]):
            ok = False
            check(False, "%s: call '%s' on the partial file (%d bytes) returned something the complete file "
                         "does not return" % (label, name, len(partial_bytes)))
    CHECKS[0] += 1
    return ok


def check_all_partials(writes, final_bytes, tmpdir, label, lengths_seed=1, n_random=12, preload_too=True):
    """Every prefix of the sequence of writes and a representative set of byte lengths of the finished file"""
    p = os.path.join(tmpdir, 'complete.sgz')
    with builtins.open(p, 'wb') as f:
        f.write(final_bytes)
    complete = battery(p)
    check(all(s == 'ok' for s, _ in complete.values()) or True, label)
    n_ok = sum(1 for s, _ in complete.values() if s == 'ok')
    check(n_ok >= 8, "%s: the complete file is unreadable? %r" % (label, {k: v[0] for k, v in complete.items()}))
    # (a) prefixes of the sequence of writes
    counts = list(range(len(writes)))
    if len(counts) > 48:
        # (many small writes: the first and last dozen prefixes and two dozen evenly spread ones in between)
        step = max(1, (len(counts) - 24) // 24)
        counts = sorted(set(counts[:12] + counts[-12:] + counts[12:-12:step]))
    for n in counts:
        check_partial(replay(writes, n), complete, tmpdir, "%s / first %d of %d writes" % (label, n, len(writes)))
    check(replay(writes) == final_bytes, "%s: replaying all recorded writes does not give the finished file" % label)
    # (b) byte lengths of the finished file
    boundaries = {0, len(final_bytes) - 1}
    ends = set()
    for (_, _, offset, data, _) in writes:
        ends.add(offset)
        ends.add(offset + len(data))
    ends = sorted(ends)
    if len(ends) > 40:
        step = max(1, (len(ends) - 20) // 20)
        ends = sorted(set(ends[:10] + ends[-10:] + ends[10:-10:step]))
    for e in ends:
        boundaries.update((e - 1, e, e + 1))
    boundaries.update((1, 4, 72, 76, 959, 960, 980, 2048, 4095, 4096, 4097, 8191, 8192, 8193))
    rng = random.Random(lengths_seed)
    boundaries.update(rng.randrange(0, len(final_bytes)) for _ in range(n_random))
    lengths = sorted(b for b in boundaries if 0 <= b < len(final_bytes))
    for i, L in enumerate(lengths):
        check_partial(final_bytes[:L], complete, tmpdir, "%s / truncated to %d of %d bytes" % (label, L, len(final_bytes)),
                      preload=(preload_too and i % 5 == 0))
    return len(counts), len(lengths)


# --------------------------------------------------------------------------------------------------------------------
# The strictly sequential execution: the producer hands each piece to a 'queue' that compresses it on the spot
class SequentialQueue:
    def __init__(self, bits_per_voxel):
        self.bits_per_voxel = bits_per_voxel
        self.blocks = []

    def put(self, buffer):
        self.blocks.append(_real_zfpy.compress_numpy(buffer, rate=self.bits_per_voxel, write_header=False))


def footer_bytes(header_info, strip=False):
    out = b''
    if not strip:
        for header_array in header_info.headers_dict.values():
            out += header_array.tobytes() + bytes(512 - len(header_array.tobytes()) % 512)
    return out


def numpy_case(shape, bits_per_voxel, blockshape, seed=0, min_il=10, min_xl=200, extra_headers=True):
    """Everything needed to call run_conversion_loop on an in-memory cube, plus the sequential reference output"""
    n_il, n_xl, n_s = shape
    array, ilines, xlines, samples = generate_fake_seismic(n_il, n_xl, n_s, min_iline=min_il, min_xline=min_xl)
    rng = np.random.RandomState(seed)
    array = (array + 0.05 * rng.standard_normal(array.shape)).astype(np.float32)
    trace_headers = {}
    if extra_headers:
        trace_headers[segyio.tracefield.TraceField.SourceX] = \
            (1000 + np.arange(n_il * n_xl, dtype=np.int32) * 3).reshape((n_il, n_xl))
        trace_headers[segyio.tracefield.TraceField.CDP_Y] = \
            (rng.randint(-5000, 5000, size=(n_il, n_xl))).astype(np.int32)
    converter = conv.NumpyConverter(array, ilines=ilines, xlines=xlines, samples=samples, trace_headers=trace_headers)
    bpv, bs = define_blockshape_3d(bits_per_voxel, blockshape)

    def loop_args():
        geom = Geometry3d(0, n_il, 0, n_xl)
        cube = CubeWithAxes(array, ilines, xlines, samples)
        header_info = HeaderwordInfo(n_traces=n_il * n_xl, variant_header_dict=converter.trace_headers)
        return cube, header_info, geom

    cube, header_info, geom = loop_args()
    saved = CURRENT[0]
    CURRENT[0] = Schedule()
    try:
        header = bytes(cu.make_header_numpy(bpv, bs, cube, header_info, geom))
        q = SequentialQueue(bpv)
        h = _real_hashlib.new('sha1')
        cu.numpy_producer(q, array, bs, h)
    finally:
        CURRENT[0] = saved
    body = b''.join(q.blocks)
    full_header = bytearray(header)
    full_header[960:980] = h.digest()
    return dict(converter=converter, bpv=bpv, bs=bs, loop_args=loop_args, header=header, blocks=q.blocks,
                loop_output=header + body, digest=h.digest(), n_items=len(q.blocks),
                n_produce=n_il, file_output=bytes(full_header) + body + footer_bytes(header_info),
                bits_per_voxel=bits_per_voxel, blockshape=blockshape)


def run_loop_once(case, queue_size, schedule, tmpdir, label, settle=0.08):
    """One call of run_conversion_loop on a recorded file handle under a schedule; checks C16 on it"""
    rec = new_recorder()
    CURRENT[0] = schedule
    path = os.path.join(tmpdir, 'loop.sgz')
    cube, header_info, geom = case['loop_args']()
    state = {}

    def go():
        with _shim_open(path, 'wb') as fh:
            d = cu.run_conversion_loop(cube, fh, case['bpv'], case['bs'], header_info, geom, queue_size=queue_size)
            state['writes_at_return'] = len(rec.events)
            state['bytes_at_return'] = replay(rec.writes())
            state['threads_at_return'] = threading.active_count()
            time.sleep(settle)      # the handle stays open for a while: a straggler would still get through
            state['writes_later'] = len(rec.events)
        return d

    finished, digest, exc = run_with_watchdog(lambda: quiet(go))
    CURRENT[0] = Schedule()
    if not check(finished, "%s: the conversion did not terminate" % label):
        return None
    if not check(exc is None, "%s: raised %r" % (label, exc)):
        return None
    check(digest == case['digest'], "%s: wrong hash returned" % label)
    check(state['bytes_at_return'] == case['loop_output'],
          "%s: the bytes written when the call returned differ from the sequential output" % label)
    check(state['writes_later'] == state['writes_at_return'], "%s: a write happened after the call returned" % label)
    with builtins.open(path, 'rb') as f:
        check(f.read() == case['loop_output'], "%s: file content differs from the sequential output" % label)
    w = rec.writes()
    check(len(w) > 0 and w[0][2] == 0 and w[0][3][:len(case['header'])] == case['header'],
          "%s: the header is not what is written first" % label)
    offsets_ok = all(w[i][2] + len(w[i][3]) == w[i + 1][2] for i in range(len(w) - 1))
    check(offsets_ok, "%s: the writes are not contiguous and in order" % label)
    return rec


def all_schedules(n_produce, n_items, seeds=(1, 2)):
    yield Schedule()
    yield ProducerRunsAhead(n_produce)
    yield CompressorRunsAhead(n_items)
    yield WriterStarved()
    yield CompressorStarved(n_produce)
    yield ProducerStarved()
    for s in seeds:
        yield Jitter(s)


# --------------------------------------------------------------------------------------------------------------------
# The SGZ -> SGZ writers: the cropper and the re-blocker ('advanced layout' converter)
from seismic_zfp.cropping import SgzCropper
from seismic_zfp.conversion import SgzConverter, NumpyConverter
from seismic_zfp.utils import pad, int_to_bytes

T0 = [time.time()]


def section(title):
    print("== [%5.1fs] %s" % (time.time() - T0[0], title))


def make_source(path, shape, bits_per_voxel, blockshape=(4, 4, -1), seed=0, headers=True):
    n_il, n_xl, n_s = shape
    array, ilines, xlines, samples = generate_fake_seismic(n_il, n_xl, n_s, min_iline=100, min_xline=2000)
    rng = np.random.RandomState(seed)
    array = (array + 0.05 * rng.standard_normal(array.shape)).astype(np.float32)
    th = {}
    if headers:
        th[segyio.tracefield.TraceField.SourceX] = (1000 + np.arange(n_il * n_xl, dtype=np.int32) * 3).reshape((n_il, n_xl))
        th[segyio.tracefield.TraceField.CDP_Y] = rng.randint(-5000, 5000, size=(n_il, n_xl)).astype(np.int32)
    saved = RECORDER[0]
    new_recorder()
    with NumpyConverter(array, ilines=ilines, xlines=xlines, samples=samples, trace_headers=th) as c:
        c.run(path, bits_per_voxel=bits_per_voxel, blockshape=blockshape)
    RECORDER[0] = saved
    return path


def crop_reference(src_path, il_rng, xl_rng, z_rng):
    """The cropped file as the format defines it: new header, the selected compression units in unit order
    (inline-unit, crossline-unit, then the contiguous run of z-units), then the cropped header arrays"""
    with builtins.open(src_path, 'rb') as f:
        src = f.read()
    with SgzCropper(src_path) as c:
        il, xl, z = c.check_and_correct_bounds(il_rng, xl_rng, z_rng)
        header = bytes(c.regenerate_header(il, xl, z))
        ub = c.unit_bytes
        z_units = (pad(z[1], c.blockshape[2]) - z[0]) // 4
        nxu, nzu = c.shape_pad[1] // 4, c.shape_pad[2] // 4
        body = bytearray()
        for iu in range(il[0] // 4, il[0] // 4 + (il[1] - il[0]) // 4):
            for xu in range(xl[0] // 4, xl[0] // 4 + (xl[1] - xl[0]) // 4):
                start = c.data_start_bytes + ub * ((iu * nxu + xu) * nzu + z[0] // 4)
                piece = src[start:start + ub * z_units]
                assert len(piece) == ub * z_units
                body += piece
        footer = b''
        c.read_variant_headers()
        for k in c.stored_header_keys:
            a = c.variant_headers[k].reshape((c.n_ilines, c.n_xlines)).astype(np.int32)
            footer += a[il[0]:il[1], xl[0]:xl[1]].flatten().tobytes()
        sub = c.read_subvolume(il[0], il[1], xl[0], xl[1], z[0], min(z[1], c.n_samples))
    return header + bytes(body) + footer, (il, xl, z), sub, len(header) + len(body)


def adv_reference(src_path):
    """The re-blocked file as the format defines it: a 64x64x4 block holds, for its 16x16 groups of 4x4 traces in
    inline-major order, the compression unit of that group at the block's depth; groups which the source file
    does not hold are zero.  Then the header arrays."""
    with builtins.open(src_path, 'rb') as f:
        src = f.read()
    with SgzConverter(src_path) as c:
        header = bytearray(c.headerbytes)
        header[44:48], header[48:52], header[52:56] = int_to_bytes(64), int_to_bytes(64), int_to_bytes(4)
        p64 = (pad(c.n_ilines, 64), pad(c.n_xlines, 64), pad(c.n_samples, 4))
        header[56:60] = int_to_bytes((c.rate * p64[0] * p64[1] * p64[2]) // (8 * 4096))
        ub, cb = c.unit_bytes, c.chunk_bytes
        rows, cols = c.shape_pad[0] // 4, c.shape_pad[1] // 4
        body = bytearray()
        for bi in range(p64[0] // 64):
            for bx in range(p64[1] // 64):
                for z in range(p64[2] // 4):
                    for ni in range(16):
                        for nx in range(16):
                            r, col = bi * 16 + ni, bx * 16 + nx
                            if r < rows and col < cols:
                                start = c.data_start_bytes + (r * cols + col) * cb + z * ub
                                body += src[start:start + ub]
                            else:
                                body += bytes(ub)
        c.read_variant_headers()
        footer = b''.join(a.tobytes() for a in c.variant_headers.values())
        vol = c.read_volume()
        hdr = {int(k): v.copy() for k, v in c.variant_headers.items()}
    return bytes(header) + bytes(body) + footer, vol, hdr, len(header) + len(body)


class FaultyHandle:
    """A source file handle whose k-th read() raises"""

    def __init__(self, path, fail_at_read):
        self._f = builtins.open(path, 'rb')
        self.name = path
        self.fail_at_read = fail_at_read
        self.n_reads = 0

    def seek(self, *a):
        return self._f.seek(*a)

    def tell(self):
        return self._f.tell()

    def read(self, n=-1):
        k = self.n_reads
        self.n_reads += 1
        if self.fail_at_read is not None and k == self.fail_at_read:
            raise Injected("injected read fault at read #%d" % k)
        return self._f.read(n)

    def close(self):
        self._f.close()


class Injected(IOError):
    pass


def run_copy(fn, out_path, label):
    """Run one copy (crop / re-block) with the output file recorded.  Returns (exception, writes, file bytes)"""
    rec = new_recorder()
    if os.path.exists(out_path):
        os.remove(out_path)
    finished, _, exc = run_with_watchdog(fn, timeout=300)
    check(finished, "%s: did not terminate" % label)
    data = b''
    if os.path.exists(out_path):
        with builtins.open(out_path, 'rb') as f:
            data = f.read()
    writes = rec.writes(os.path.realpath(out_path))
    check(replay(writes) == data, "%s: the recorded writes do not add up to the file on disk" % label)
    ok = all(writes[i][2] + len(writes[i][3]) == writes[i + 1][2] for i in range(len(writes) - 1))
    check(ok and (not writes or writes[0][2] == 0), "%s: the copy is not written front to back" % label)
    return exc, writes, data


def complete_battery(expected, tmpdir):
    p = os.path.join(tmpdir, 'complete.sgz')
    with builtins.open(p, 'wb') as f:
        f.write(expected)
    return battery(p)


def main():
    tmpdir = tempfile.mkdtemp(prefix='sgz-demo-')
    verbose = '-v' in sys.argv
    out = os.path.join(tmpdir, 'out.sgz')
    n_partial = 0
    try:
        section("sources")
        src8 = make_source(os.path.join(tmpdir, 'src8.sgz'), (20, 24, 600), 8, seed=1)          # blocks 4x4x256
        src4 = make_source(os.path.join(tmpdir, 'src4.sgz'), (13, 18, 90), 4, seed=2)           # blocks 4x4x512
        src1 = make_source(os.path.join(tmpdir, 'src1.sgz'), (8, 12, 30), 1, seed=3, headers=False)
        src64 = make_source(os.path.join(tmpdir, 'src64.sgz'), (192, 64, 9), 2, blockshape=(64, 64, 4), seed=4)
        adv_sources = [('fixture small_2bit', 'test_data/small_2bit.sgz')]
        for i, shape in enumerate([(13, 7, 30), (65, 66, 40), (64, 64, 20), (70, 130, 9), (5, 9, 1030)]):
            adv_sources.append(("%dx%dx%d" % shape,
                                make_source(os.path.join(tmpdir, 'adv%d.sgz' % i), shape, 2, seed=10 + i,
                                            headers=(i % 2 == 0))))

        # ------------------------------------------------------------------------------------------------------------
        section("cropper: output = the format's definition of the crop; partial outputs never read back as data")
        crops = [(src8, (4, 12), None, None, {}),
                 (src8, None, (8, 20), None, {}),
                 (src8, None, None, (256, 512), {}),
                 (src8, (8, 20), (0, 24), (256, 600), {}),
                 (src8, (5, 11), (3, 9), (0, 256), {'preload': True}),       # unaligned: corrected to block boundaries
                 (src8, (0, 20), None, None, {'handle': True}),               # everything, source given as file handle
                 (src4, (4, 12), (4, 16), None, {}),
                 (src4, (0, 4), (12, 16), None, {}),
                 (src1, (4, 8), None, None, {}),                              # no header arrays at all
                 (src64, (64, 128), None, None, {}),                          # a 64x64x4 layout source
                 ('test_data/small_4bit.sgz', (0, 4), (0, 4), None, {}),
                 ('test_data/small_8bit.sgz', (0, 4), (0, 4), None, {})]
        for (src, il, xl, z, opt) in crops:
            label = "crop %s il=%s xl=%s z=%s %s" % (os.path.basename(src), il, xl, z, opt or '')
            expected, ranges, sub, data_end = crop_reference(src, il, xl, z)

            def go():
                if opt.get('handle'):
                    with builtins.open(src, 'rb') as fh:
                        SgzCropper(fh).write_cropped_file_by_indexes(out, il, xl, z)
                else:
                    c = SgzCropper(src, preload=bool(opt.get('preload')))
                    try:
                        c.write_cropped_file_by_indexes(out, il, xl, z)
                    finally:
                        c.close()

            exc, writes, data = run_copy(go, out, label)
            check(exc is None, "%s: raised %r" % (label, exc))
            check(data == expected, "%s: the cropped file is not what the format defines" % label)
            with SgzReader(out) as r:
                got = r.read_volume()
            check(got.shape == sub.shape and np.array_equal(got, sub),
                  "%s: the cropped file does not read back as the sub-volume of the source" % label)
            a, b = check_all_partials(writes, expected, tmpdir, label, n_random=10)
            n_partial += a + b
            if verbose:
                print("   %-80s %d writes, %d bytes" % (label, len(writes), len(data)))
        print("   %d crops" % len(crops))

        # ------------------------------------------------------------------------------------------------------------
        section("cropper: source that fails or is itself a partial file")
        src, il, xl, z = src8, (4, 16), (4, 20), None
        expected, _, _, data_end = crop_reference(src, il, xl, z)
        complete = complete_battery(expected, tmpdir)
        with builtins.open(src, 'rb') as f:
            src_bytes = f.read()
        outcomes = set()
        for k in (0, 1, 2, 3, 5, 8, 13, 21, 34, 40, 60, 61, 62, 63, 64):
            label = "crop, read #%d of the source fails" % k

            def go():
                SgzCropper(FaultyHandle(src, k)).write_cropped_file_by_indexes(out, il, xl, z)

            exc, writes, data = run_copy(go, out, label)
            outcomes.add('raised' if exc is not None else 'completed')
            if exc is None:
                check(data == expected, "%s: completed, but the output is not the complete crop" % label)
            else:
                check(isinstance(exc, Injected), "%s: unexpected exception %r" % (label, exc))
                check(expected[:len(data)] == data, "%s: what was written is not a prefix of the complete crop" % label)
            check_partial(data, complete, tmpdir, label)
            n_partial += 1
        trunc = os.path.join(tmpdir, 'trunc.sgz')
        rng = random.Random(7)
        lengths = sorted({len(src_bytes) - 1, len(src_bytes) - 700, 8192, 8191, 4096, 100, 8192 + 6 * 24 * 4096 // 4}
                         | {rng.randrange(8192, len(src_bytes)) for _ in range(14)})
        for L in lengths:
            label = "crop of a source truncated to %d of %d bytes" % (L, len(src_bytes))
            with builtins.open(trunc, 'wb') as f:
                f.write(src_bytes[:L])

            def go():
                c = SgzCropper(trunc)
                try:
                    c.write_cropped_file_by_indexes(out, il, xl, z)
                finally:
                    c.close()

            exc, writes, data = run_copy(go, out, label)
            outcomes.add('raised' if exc is not None else 'completed')
            if exc is None:
                check(data == expected, "%s: completed, but the output is not the complete crop" % label)
            else:
                check(expected[:len(data)] == data, "%s: what was written is not a prefix of the complete crop" % label)
            check_partial(data, complete, tmpdir, label)
            n_partial += 1
        print("   outcomes: %s" % ', '.join(sorted(outcomes)))

        # ------------------------------------------------------------------------------------------------------------
        section("re-blocker: output = the format's definition of the 64x64x4 layout; partial outputs")
        for (name, src) in adv_sources:
            label = "re-block %s" % name
            expected, vol, hdr, data_end = adv_reference(src)

            def go():
                with SgzConverter(src) as c:
                    c.convert_to_adv_sgz(out)

            exc, writes, data = run_copy(go, out, label)
            check(exc is None, "%s: raised %r" % (label, exc))
            check(data == expected, "%s: the re-blocked file is not what the format defines" % label)
            check(len(writes) >= 2 and len(writes[0][3]) == 8192, "%s: the header is not written first" % label)
            with SgzReader(out) as r:
                check(np.array_equal(r.read_volume(), vol), "%s: does not read back as the source volume" % label)
                for z in (0, r.n_samples - 1):
                    check(np.array_equal(r.read_zslice(z), vol[:, :, z]), "%s: zslice %d differs" % (label, z))
            a, b = check_all_partials(writes, expected, tmpdir, label, n_random=10)
            n_partial += a + b
            if verbose:
                print("   %-60s %d writes, %d bytes" % (label, len(writes), len(data)))
        print("   %d sources re-blocked" % len(adv_sources))

        # ------------------------------------------------------------------------------------------------------------
        section("re-blocker: source read faults, source without its footer")
        name, src = adv_sources[2]
        expected, vol, hdr, data_end = adv_reference(src)
        complete = complete_battery(expected, tmpdir)
        outcomes = set()
        for k in (0, 1, 2, 3, 4, 10, 17, 18, 30, 40, 55, 70, 71, 72, 73, 74):
            label = "re-block, read #%d of the source fails" % k

            def go():
                SgzConverter(FaultyHandle(src, k)).convert_to_adv_sgz(out)

            exc, writes, data = run_copy(go, out, label)
            outcomes.add('raised' if exc is not None else 'completed')
            if exc is None:
                check(data == expected, "%s: completed, but the output is not the complete file" % label)
            else:
                check(isinstance(exc, Injected), "%s: unexpected exception %r" % (label, exc))
                check(expected[:len(data)] == data, "%s: what was written is not a prefix of the complete file" % label)
            check_partial(data, complete, tmpdir, label)
            n_partial += 1
        with builtins.open(src, 'rb') as f:
            src_bytes = f.read()
        with SgzReader(src) as r:
            src_data_end = r.data_start_bytes + r.compressed_data_diskblocks * 4096
        for L in sorted({src_data_end, src_data_end + 1, len(src_bytes) - 1, (src_data_end + len(src_bytes)) // 2}):
            label = "re-block of a source truncated inside its footer (%d of %d bytes)" % (L, len(src_bytes))
            with builtins.open(trunc, 'wb') as f:
                f.write(src_bytes[:L])

            def go():
                with SgzConverter(trunc) as c:
                    c.convert_to_adv_sgz(out)

            exc, writes, data = run_copy(go, out, label)
            outcomes.add('raised' if exc is not None else 'completed')
            if exc is None:
                check(data == expected, "%s: completed, but the output is not the complete file" % label)
            check(expected[:len(data)] == data, "%s: what was written is not a prefix of the complete file" % label)
            check_partial(data, complete, tmpdir, label)
            n_partial += 1
        print("   outcomes: %s" % ', '.join(sorted(outcomes)))
        print("   %d partial files read back in all" % n_partial)
    finally:
        shutil.rmtree(tmpdir, ignore_errors=True)
    print("%d checks, %d failures, %.1fs" % (CHECKS[0], len(FAILURES), time.time() - T0[0]))
    if FAILURES:
        print("FAILED")
        return 1
    print("OK: every copy is the complete copy or a prefix of it, and no partial file read back as data")
    return 0


if __name__ == '__main__':
    sys.exit(main())
