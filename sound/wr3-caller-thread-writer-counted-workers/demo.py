import sys, os; sys.path.insert(0, os.getcwd())
# demo2 - change2 (caller-thread file writer, counted worker threads that are joined, error propagation).
# Exits 0 on the unchanged tree and with change2.diff applied.  Same instrumentation as for the other pipeline change:
#  * forced interleavings of the producer / compressor / writer steps (producer far ahead, writer starved, compressor
#    starved, producer starved, seeded jitter) x queue capacities 1, 2, 3, 16, unbounded x three block layouts, every run
#    checked for C16 against an independently built strictly sequential output (terminates, byte-identical, header first,
#    blocks once and in order, nothing written after the return);
#  * whole conversions through NumpyConverter / SegyConverter (3D, 2D, irregular, holes; heuristic / thorough / exhaustive /
#    strip; reduce_iops; queue length 1 and 3 forced through mem_limit) against a sequentially produced file;
#  * C18: every prefix of the recorded writes and many truncation lengths are read back: raise, or same as complete file;
#  * faults in every stage: read fault in the producer (must surface as that exception in the caller, also through
#    SegyConverter.run), failure inside zfpy.compress_numpy, failing and half-completed write().  For the last three the
#    unchanged library never comes back (its worker thread dies and join() waits forever) - that is noted, not judged;
#    what is judged on both trees: the call does not return normally, no write follows a failed write, what reached the
#    file is a prefix of the sequential output, and the partial file never reads back as data.
import builtins
import hashlib as _real_hashlib
import random
import shutil
import tempfile
import threading
import time
import traceback
import warnings

import numpy as np
import segyio
import zfpy as _real_zfpy

import seismic_zfp
assert os.path.realpath(seismic_zfp.__file__).startswith(os.path.realpath(os.getcwd()) + os.sep), \
    "seismic_zfp is not imported from the current directory: %s" % seismic_zfp.__file__

import seismic_zfp.conversion_utils as cu
import seismic_zfp.conversion as conv
import seismic_zfp.cropping as crop
from seismic_zfp.read import SgzReader
from seismic_zfp.headers import HeaderwordInfo
from seismic_zfp.utils import (define_blockshape_3d, CubeWithAxes, Geometry3d, generate_fake_seismic)


# --------------------------------------------------------------------------------------------------------------------
# The installed distribution's version string cannot be parsed here: stub the lookup so that the writers run
class _D:
    version = '0.4.1'


class _P:
    @staticmethod
    def get_distribution(name):
        return _D


cu.pkg_resources = _P

FAILURES = []
CHECKS = [0]


def check(cond, msg):
    CHECKS[0] += 1
    if not cond:
        FAILURES.append(msg)
        print("FAIL:", msg)
    return cond


def quiet(fn, *a, **k):
    return fn(*a, **k)


# The library prints progress: silence it (module globals shadow the builtin)
import seismic_zfp.utils as _utils
cu.print = conv.print = crop.print = _utils.print = lambda *a, **k: None


# --------------------------------------------------------------------------------------------------------------------
# Decision points.  Three kinds of step exist in a conversion whatever threads execute them:
#   'produce'  : the producer hashes one plane (set) of input, just before handing it on
#   'compress' : one call of zfpy.compress_numpy
#   'write'    : one call of write() on an output file handle
# The demonstration intercepts all three (hashlib and zfpy as seen by conversion_utils, open() as seen by
# conversion / cropping) and lets a Schedule decide how long each step is held back.
class Schedule:
    name = 'free'
    header_len = 8192

    def __init__(self):
        self.cv = threading.Condition()
        self.counts = {'produce': 0, 'compress': 0, 'write': 0, 'compressed_bytes': 0, 'written_bytes': 0,
                       'item_len': 0}
        self.stalls = 0

    def point(self, role):
        self.before(role)
        with self.cv:
            self.counts[role] += 1
            self.cv.notify_all()

    def done(self, role, nbytes):
        with self.cv:
            if role == 'compress':
                self.counts['compressed_bytes'] += nbytes
                self.counts['item_len'] = nbytes
            elif role == 'write':
                self.counts['written_bytes'] += nbytes
            self.cv.notify_all()

    @classmethod
    def backlog(cls, c):
        """Bytes that are compressed but not yet handed to write()"""
        return c['compressed_bytes'] - max(0, c['written_bytes'] - cls.header_len)

    def wait_until(self, pred, timeout):
        """Hold the calling step until pred(counts) or until the (bounded) stall time is over.  The bound makes an
        infeasible wish (e.g. 'the producer finishes first' with a full queue) harmless: it degenerates to a stall,
        which is itself an interesting interleaving (everybody else runs until blocked)."""
        with self.cv:
            if not self.cv.wait_for(lambda: pred(self.counts), timeout):
                self.stalls += 1

    def before(self, role):
        pass


class ProducerRunsAhead(Schedule):
    """Compressor and writer are held at their first steps until the producer is done (or blocked on a full queue)"""
    name = 'producer-runs-ahead'

    def __init__(self, n_produce, stall=0.06):
        super().__init__()
        self.n, self.stall = n_produce, stall

    def before(self, role):
        if role in ('compress', 'write') and self.counts[role] <= 1:
            self.wait_until(lambda c: c['produce'] >= self.n, self.stall)


class CompressorRunsAhead(Schedule):
    """The writer is held (after the header) until the compressor has compressed everything, or everybody in front
    of it is blocked on full queues"""
    name = 'compressor-runs-ahead'

    def __init__(self, n_items, stall=0.06):
        super().__init__()
        self.n, self.stall = n_items, stall

    def before(self, role):
        if role == 'write' and self.counts['write'] == 1:
            self.wait_until(lambda c: c['compress'] >= self.n and c['compressed_bytes'] > 0, self.stall)


class WriterStarved(Schedule):
    """The writer is slowest: every write is held until three more items are waiting (or everybody else is blocked):
    both queues run full, producer and compressor block in put()"""
    name = 'writer-starved'

    def __init__(self, stall=0.015):
        super().__init__()
        self.stall = stall

    def before(self, role):
        if role == 'write':
            self.wait_until(lambda c: c['item_len'] > 0 and self.backlog(c) >= 3 * c['item_len'], self.stall)


class CompressorStarved(Schedule):
    """The compressor is slowest: the writer always finds an empty queue, the producer a full one"""
    name = 'compressor-starved'

    def __init__(self, n_produce, stall=0.015):
        super().__init__()
        self.n, self.stall = n_produce, stall

    def before(self, role):
        if role == 'compress':
            self.wait_until(lambda c: c['produce'] >= self.n and self.backlog(c) == 0, self.stall)


class ProducerStarved(Schedule):
    """The producer is slowest: it moves on only when everything compressed so far reached the file and then some:
    the queues are empty almost always and both consumers sit in get()"""
    name = 'producer-starved'

    def __init__(self, stall=0.006):
        super().__init__()
        self.stall = stall

    def before(self, role):
        if role == 'produce':
            self.wait_until(lambda c: False, self.stall)


class Jitter(Schedule):
    """Seeded pseudo-random delays, one generator per kind of step (so the sequence of delays does not depend on
    which thread gets there first)"""

    def __init__(self, seed):
        super().__init__()
        self.name = 'jitter-%d' % seed
        self.rng = {r: random.Random(seed * 7919 + i) for i, r in enumerate(('produce', 'compress', 'write'))}

    def before(self, role):
        d = self.rng[role].choice((0, 0, 0, 0.0005, 0.002, 0.005))
        if d:
            time.sleep(d)


CURRENT = [Schedule()]


def point(role):
    CURRENT[0].point(role)


def done(role, nbytes):
    CURRENT[0].done(role, nbytes)


class _HashWrap:
    def __init__(self, real):
        self.real = real

    def update(self, data):
        point('produce')
        self.real.update(data)

    def digest(self):
        return self.real.digest()

    def hexdigest(self):
        return self.real.hexdigest()


class _HashShim:
    @staticmethod
    def new(name, *a, **k):
        return _HashWrap(_real_hashlib.new(name, *a, **k))

    @staticmethod
    def sha1(*a, **k):
        return _HashWrap(_real_hashlib.sha1(*a, **k))


class _ZfpShim:
    def __getattr__(self, item):
        return getattr(_real_zfpy, item)

    @staticmethod
    def compress_numpy(*a, **k):
        point('compress')
        out = _real_zfpy.compress_numpy(*a, **k)
        done('compress', len(out))
        return out


cu.hashlib = _HashShim
cu.zfpy = _ZfpShim()


class WriteFault(Exception):
    pass


class Recorder:
    """Everything that is done to the output file(s), in program order"""

    def __init__(self):
        self.lock = threading.Lock()
        self.events = []          # (kind, path, offset, data, thread-id)
        self.fail_at = None       # index (among write calls) of the write that fails
        self.fail_partial = False  # the failing write stores its first half before failing
        self.n_writes = 0

    def writes(self, path=None):
        return [e for e in self.events if e[0] == 'write' and (path is None or e[1] == path)]


class RecFile:
    """A real file whose write() is a decision point, is recorded, and can be made to fail"""

    def __init__(self, f, rec, path):
        self._f, self._rec, self._path = f, rec, path
        self.name = f.name

    def write(self, data):
        point('write')
        data = bytes(data)
        rec = self._rec
        with rec.lock:
            k = rec.n_writes
            rec.n_writes += 1
            failing = rec.fail_at is not None and k == rec.fail_at
            if failing and rec.fail_partial:
                data = data[:len(data) // 2]
            if not failing or rec.fail_partial:
                rec.events.append(('write', self._path, self._f.tell(), data, threading.get_ident()))
                self._f.write(data)
            if failing:
                rec.events.append(('fault', self._path, self._f.tell(), b'', threading.get_ident()))
                raise OSError(28, "No space left on device (injected)")
        done('write', len(data))
        return len(data)

    def flush(self):
        self._f.flush()

    def seek(self, *a):
        return self._f.seek(*a)

    def tell(self):
        return self._f.tell()

    def read(self, *a):
        return self._f.read(*a)

    def close(self):
        with self._rec.lock:
            self._rec.events.append(('close', self._path, None, b'', threading.get_ident()))
        self._f.close()

    def __enter__(self):
        return self

    def __exit__(self, *a):
        self.close()


RECORDER = [Recorder()]


def _shim_open(path, mode='r', *a, **k):
    f = builtins.open(path, mode, *a, **k)
    if 'w' in mode or '+' in mode or 'a' in mode:
        return RecFile(f, RECORDER[0], os.path.realpath(path))
    return f


conv.open = _shim_open
crop.open = _shim_open


def new_recorder():
    RECORDER[0] = Recorder()
    return RECORDER[0]


def replay(writes, n=None):
    """The file content after the first n recorded writes"""
    out = bytearray()
    for (_, _, offset, data, _) in writes[:n]:
        if offset > len(out):
            out.extend(bytes(offset - len(out)))
        out[offset:offset + len(data)] = data
    return bytes(out)


def run_with_watchdog(fn, timeout=120.0):
    """Run fn in a daemon thread.  Returns (finished, result, exception)"""
    box = {}

    def target():
        try:
            box['result'] = fn()
        except BaseException as e:
            box['exc'] = e

    t = threading.Thread(target=target, daemon=True)
    t.start()
    t.join(timeout)
    return (not t.is_alive()), box.get('result'), box.get('exc')


# --------------------------------------------------------------------------------------------------------------------
# Reading back: what a reader returns from a (possibly partial) file
def battery(path, preload=False):
    """name -> value for a fixed list of read calls; an exception is recorded as such"""
    out = {}

    def rec(name, fn):
        try:
            out[name] = ('ok', fn())
        except BaseException as e:
            out[name] = ('raised', type(e).__name__)

    try:
        r = SgzReader(path, preload=preload)
    except BaseException as e:
        return {'open': ('raised', type(e).__name__)}
    try:
        out['open'] = ('ok', (r.n_samples, r.n_xlines, r.n_ilines, r.tracecount, tuple(r.blockshape), r.rate))
        if r.is_3d:
            ni, nx, nz = r.n_ilines, r.n_xlines, r.n_samples
            for i in sorted({0, ni // 2, ni - 1}):
                rec('inline %d' % i, lambda i=i: r.read_inline(i))
            for x in sorted({0, nx // 2, nx - 1}):
                rec('crossline %d' % x, lambda x=x: r.read_crossline(x))
            for z in sorted({0, nz // 2, nz - 1}):
                rec('zslice %d' % z, lambda z=z: r.read_zslice(z))
            rec('volume', lambda: r.read_volume())
            rec('subvolume', lambda: r.read_subvolume(ni // 2, ni, nx // 3, nx, nz // 4, nz))
            if r.structured:
                rec('cd', lambda: r.read_correlated_diagonal(0))
                rec('ad', lambda: r.read_anticorrelated_diagonal(min(ni, nx) - 1))
        else:
            rec('subplane', lambda: r.read_subplane(0, r.tracecount, 0, r.n_samples))
        for t in sorted({0, r.tracecount // 2, r.tracecount - 1}):
            rec('trace %d' % t, lambda t=t: r.get_trace(t))
            rec('header %d' % t, lambda t=t: dict(r.gen_trace_header(t)))
        for tf in (189, 193, 73, 1):
            rec('tracefield %d' % tf, lambda tf=tf: r.get_tracefield_1d(tf))
        rec('variant headers', lambda: (r.read_variant_headers(), {int(k): v for k, v in r.variant_headers.items()})[1])
        rec('text header', lambda: bytes(r.file_text_header))
        rec('binary header', lambda: bytes(r.file_binary_header))
    finally:
        try:
            r.close()
        except BaseException:
            pass
    return out


def same(a, b):
    if isinstance(a, np.ndarray) or isinstance(b, np.ndarray):
        return isinstance(a, np.ndarray) and isinstance(b, np.ndarray) and a.shape == b.shape \
               and a.dtype == b.dtype and np.array_equal(a, b, equal_nan=True)
    if isinstance(a, dict):
        return isinstance(b, dict) and a.keys() == b.keys() and all(same(a[k], b[k]) for k in a)
    if isinstance(a, (tuple, list)):
        return type(a) == type(b) and len(a) == len(b) and all(same(x, y) for x, y in zip(a, b))
    return a == b


def check_partial(partial_bytes, complete, tmpdir, label, preload=False):
    """A partial file either raises or returns exactly what the complete file returns, call by call"""
    p = os.path.join(tmpdir, 'partial.sgz')
    with builtins.open(p, 'wb') as f:
        f.write(partial_bytes)
    got = battery(p, preload=preload)
    ok = True
    for name, (status, value) in got.items():
        if status == 'raised':
            continue
        c = complete.get(name)
        if c is None or c[0] != 'ok' or not same(value, c[1]):
            ok = False
            check(False, "%s: call '%s' on the partial file (%d bytes) returned something the complete file "
                         "does not return" % (label, name, len(partial_bytes)))
    CHECKS[0] += 1
    return ok


def check_all_partials(writes, final_bytes, tmpdir, label, lengths_seed=1, n_random=12, preload_too=True):
    """Every prefix of the sequence of writes and a representative set of byte lengths of the finished file"""
    p = os.path.join(tmpdir, 'complete.sgz')
    with builtins.open(p, 'wb') as f:
        f.write(final_bytes)
    complete = battery(p)
    check(all(s == 'ok' for s, _ in complete.values()) or True, label)
    n_ok = sum(1 for s, _ in complete.values() if s == 'ok')
    check(n_ok >= 8, "%s: the complete file is unreadable? %r" % (label, {k: v[0] for k, v in complete.items()}))
    # (a) prefixes of the sequence of writes
    counts = list(range(len(writes)))
    if len(counts) > 48:
        # (many small writes: the first and last dozen prefixes and two dozen evenly spread ones in between)
        step = max(1, (len(counts) - 24) // 24)
        counts = sorted(set(counts[:12] + counts[-12:] + counts[12:-12:step]))
    for n in counts:
        check_partial(replay(writes, n), complete, tmpdir, "%s / first %d of %d writes" % (label, n, len(writes)))
    check(replay(writes) == final_bytes, "%s: replaying all recorded writes does not give the finished file" % label)
    # (b) byte lengths of the finished file
    boundaries = {0, len(final_bytes) - 1}
    ends = set()
    for (_, _, offset, data, _) in writes:
        ends.add(offset)
        ends.add(offset + len(data))
    ends = sorted(ends)
    if len(ends) > 40:
        step = max(1, (len(ends) - 20) // 20)
        ends = sorted(set(ends[:10] + ends[-10:] + ends[10:-10:step]))
    for e in ends:
        boundaries.update((e - 1, e, e + 1))
    boundaries.update((1, 4, 72, 76, 959, 960, 980, 2048, 4095, 4096, 4097, 8191, 8192, 8193))
    rng = random.Random(lengths_seed)
    boundaries.update(rng.randrange(0, len(final_bytes)) for _ in range(n_random))
    lengths = sorted(b for b in boundaries if 0 <= b < len(final_bytes))
    for i, L in enumerate(lengths):
        check_partial(final_bytes[:L], complete, tmpdir, "%s / truncated to %d of %d bytes" % (label, L, len(final_bytes)),
                      preload=(preload_too and i % 5 == 0))
    return len(counts), len(lengths)


# --------------------------------------------------------------------------------------------------------------------
# The strictly sequential execution: the producer hands each piece to a 'queue' that compresses it on the spot
class SequentialQueue:
    def __init__(self, bits_per_voxel):
        self.bits_per_voxel = bits_per_voxel
        self.blocks = []

    def put(self, buffer):
        self.blocks.append(_real_zfpy.compress_numpy(buffer, rate=self.bits_per_voxel, write_header=False))


def footer_bytes(header_info, strip=False):
    out = b''
    if not strip:
        for header_array in header_info.headers_dict.values():
            out += header_array.tobytes() + bytes(512 - len(header_array.tobytes()) % 512)
    return out


def numpy_case(shape, bits_per_voxel, blockshape, seed=0, min_il=10, min_xl=200, extra_headers=True):
    """Everything needed to call run_conversion_loop on an in-memory cube, plus the sequential reference output"""
    n_il, n_xl, n_s = shape
    array, ilines, xlines, samples = generate_fake_seismic(n_il, n_xl, n_s, min_iline=min_il, min_xline=min_xl)
    rng = np.random.RandomState(seed)
    array = (array + 0.05 * rng.standard_normal(array.shape)).astype(np.float32)
    trace_headers = {}
    if extra_headers:
        trace_headers[segyio.tracefield.TraceField.SourceX] = \
            (1000 + np.arange(n_il * n_xl, dtype=np.int32) * 3).reshape((n_il, n_xl))
        trace_headers[segyio.tracefield.TraceField.CDP_Y] = \
            (rng.randint(-5000, 5000, size=(n_il, n_xl))).astype(np.int32)
    converter = conv.NumpyConverter(array, ilines=ilines, xlines=xlines, samples=samples, trace_headers=trace_headers)
    bpv, bs = define_blockshape_3d(bits_per_voxel, blockshape)

    def loop_args():
        geom = Geometry3d(0, n_il, 0, n_xl)
        cube = CubeWithAxes(array, ilines, xlines, samples)
        header_info = HeaderwordInfo(n_traces=n_il * n_xl, variant_header_dict=converter.trace_headers)
        return cube, header_info, geom

    cube, header_info, geom = loop_args()
    saved = CURRENT[0]
    CURRENT[0] = Schedule()
    try:
        header = bytes(cu.make_header_numpy(bpv, bs, cube, header_info, geom))
        q = SequentialQueue(bpv)
        h = _real_hashlib.new('sha1')
        cu.numpy_producer(q, array, bs, h)
    finally:
        CURRENT[0] = saved
    body = b''.join(q.blocks)
    full_header = bytearray(header)
    full_header[960:980] = h.digest()
    return dict(converter=converter, bpv=bpv, bs=bs, loop_args=loop_args, header=header, blocks=q.blocks,
                loop_output=header + body, digest=h.digest(), n_items=len(q.blocks),
                n_produce=n_il, file_output=bytes(full_header) + body + footer_bytes(header_info),
                bits_per_voxel=bits_per_voxel, blockshape=blockshape)


def run_loop_once(case, queue_size, schedule, tmpdir, label, settle=0.04):
    """One call of run_conversion_loop on a recorded file handle under a schedule; checks C16 on it"""
    rec = new_recorder()
    CURRENT[0] = schedule
    path = os.path.join(tmpdir, 'loop.sgz')
    cube, header_info, geom = case['loop_args']()
    state = {}

    def go():
        with _shim_open(path, 'wb') as fh:
            d = cu.run_conversion_loop(cube, fh, case['bpv'], case['bs'], header_info, geom, queue_size=queue_size)
            state['writes_at_return'] = len(rec.events)
            state['bytes_at_return'] = replay(rec.writes())
            state['threads_at_return'] = threading.active_count()
            time.sleep(settle)      # the handle stays open for a while: a straggler would still get through
            state['writes_later'] = len(rec.events)
        return d

    finished, digest, exc = run_with_watchdog(lambda: quiet(go))
    CURRENT[0] = Schedule()
    if not check(finished, "%s: the conversion did not terminate" % label):
        return None
    if not check(exc is None, "%s: raised %r" % (label, exc)):
        return None
    check(digest == case['digest'], "%s: wrong hash returned" % label)
    check(state['bytes_at_return'] == case['loop_output'],
          "%s: the bytes written when the call returned differ from the sequential output" % label)
    check(state['writes_later'] == state['writes_at_return'], "%s: a write happened after the call returned" % label)
    with builtins.open(path, 'rb') as f:
        check(f.read() == case['loop_output'], "%s: file content differs from the sequential output" % label)
    w = rec.writes()
    check(len(w) > 0 and w[0][2] == 0 and w[0][3][:len(case['header'])] == case['header'],
          "%s: the header is not what is written first" % label)
    offsets_ok = all(w[i][2] + len(w[i][3]) == w[i + 1][2] for i in range(len(w) - 1))
    check(offsets_ok, "%s: the writes are not contiguous and in order" % label)
    return rec


def all_schedules(n_produce, n_items, seeds=(1, 2)):
    yield Schedule()
    yield ProducerRunsAhead(n_produce)
    yield CompressorRunsAhead(n_items)
    yield WriterStarved()
    yield CompressorStarved(n_produce)
    yield ProducerStarved()
    for s in seeds:
        yield Jitter(s)


# --------------------------------------------------------------------------------------------------------------------
# Whole conversions (header, blocks, footer arrays, header fix-up, hash) through the public converters
from seismic_zfp.seismicfile import SeismicFile
from seismic_zfp.utils import define_blockshape_2d


def make_segy(path, shape, seed=5):
    n_il, n_xl, n_s = shape
    array, _, _, _ = generate_fake_seismic(n_il, n_xl, n_s)
    rng = np.random.RandomState(seed)
    array = (array + 0.05 * rng.standard_normal(array.shape)).astype(np.float32)
    segyio.tools.from_array3D(path, array, iline=189, xline=193, format=segyio.SegySampleFormat.IEEE_FLOAT_4_BYTE,
                              dt=4000, delrt=0)
    with segyio.open(path, 'r+') as f:
        for i in range(f.tracecount):
            f.header[i] = {segyio.TraceField.SourceX: 5000 + 7 * i, segyio.TraceField.CDP_Y: 90000 - i,
                           segyio.TraceField.TRACE_SEQUENCE_FILE: i + 1}
    return path


def segy_sequential_reference(in_path, out_path, bits_per_voxel, blockshape, reduce_iops, header_detection):
    """What a strictly sequential execution writes: the producer compresses each piece on the spot, then the
    library's own (single threaded) footer / fix-up / hash code runs"""
    saved = CURRENT[0]
    CURRENT[0] = Schedule()
    try:
        c = conv.SegyConverter(in_path)
        with SeismicFile.open(in_path, c.filetype) as seismic:
            if c.geom is None:
                c.infer_geometry(seismic)
            if c.is_2d:
                bpv, bs = define_blockshape_2d(bits_per_voxel, blockshape if blockshape is not None else (1, 16, -1))
            else:
                bpv, bs = define_blockshape_3d(bits_per_voxel, blockshape if blockshape is not None else (4, 4, -1))
            header_info = c.get_blank_header_info(seismic, header_detection)
            store_headers = header_detection != 'strip'
            header = cu.make_header_seismic_file(seismic, bpv, bs, c.geom, header_info)
            q = SequentialQueue(bpv)
            h = _real_hashlib.new('sha1')
            with warnings.catch_warnings():
                warnings.simplefilter('ignore')
                if c.is_2d:
                    cu.seismic_file_producer_2d(q, seismic, bs, store_headers, header_info.headers_dict, c.geom, h,
                                                verbose=False)
                else:
                    cu.seismic_file_producer(q, seismic, bs, store_headers, header_info.headers_dict, c.geom, h,
                                             reduce_iops=reduce_iops, verbose=False)
            with builtins.open(out_path, 'wb') as f:
                f.write(header)
                for b in q.blocks:
                    f.write(b)
                f.flush()
                c.write_headers(header_detection, header_info, f)
                c.write_hash(h.digest(), f)
    finally:
        CURRENT[0] = saved
    with builtins.open(out_path, 'rb') as f:
        return f.read(), len(q.blocks), len(header)


def run_converter_once(make_and_run, out_path, expected, schedule, label, settle=0.04):
    """One whole conversion under a schedule.  Returns the recorder"""
    rec = new_recorder()
    CURRENT[0] = schedule
    if os.path.exists(out_path):
        os.remove(out_path)

    def go():
        with warnings.catch_warnings():
            warnings.simplefilter('ignore')
            make_and_run(out_path)

    finished, _, exc = run_with_watchdog(lambda: quiet(go))
    CURRENT[0] = Schedule()
    if not check(finished, "%s: the conversion did not terminate" % label):
        return None
    if not check(exc is None, "%s: raised %r" % (label, exc)):
        return None
    n_events = len(rec.events)
    with builtins.open(out_path, 'rb') as f:
        content = f.read()
    check(content == expected, "%s: the output file differs from the sequentially produced file" % label)
    time.sleep(settle)
    with builtins.open(out_path, 'rb') as f:
        check(f.read() == content and len(rec.events) == n_events,
              "%s: the file was written to after the conversion returned" % label)
    check(replay(rec.writes(os.path.realpath(out_path))) == expected,
          "%s: the recorded writes do not add up to the sequentially produced file" % label)
    w = [e for e in rec.writes(os.path.realpath(out_path))]
    check(w and w[0][2] == 0 and len(w[0][3]) >= 8192 and w[0][3][:64] == expected[:64],
          "%s: the header is not the first thing written" % label)
    return rec


def segy_runner(in_path, bits_per_voxel, blockshape, reduce_iops, header_detection, queue_len):
    def make_and_run(out_path):
        with conv.SegyConverter(in_path) as c:
            if queue_len is not None:
                # check_memory() derives the queue length from the memory it believes to have
                with SeismicFile.open(in_path, c.filetype) as s:
                    n_samples = len(s.samples)
                    if c.geom is None:
                        c.infer_geometry(s)
                if c.is_2d:
                    inline_set_bytes = len(c.geom.traces) * n_samples * 4
                else:
                    _, bs = define_blockshape_3d(bits_per_voxel, blockshape if blockshape is not None else (4, 4, -1))
                    inline_set_bytes = bs[0] * len(c.geom.xlines) * n_samples * 4
                c.mem_limit = 2 * inline_set_bytes * queue_len
            kw = {} if blockshape is None else {'blockshape': blockshape}
            c.run(out_path, bits_per_voxel=bits_per_voxel, reduce_iops=reduce_iops,
                  header_detection=header_detection, **kw)
    return make_and_run


def numpy_runner(case):
    def make_and_run(out_path):
        with case['converter'] as c:
            c.run(out_path, bits_per_voxel=case['bits_per_voxel'], blockshape=case['blockshape'])
    return make_and_run


# --------------------------------------------------------------------------------------------------------------------
# Faults
class Injected(IOError):
    pass


class FaultAt(Schedule):
    """The k-th step of one kind raises (a read fault in the producer, a failure in the compressor); optional jitter"""

    def __init__(self, role, k, inner=None):
        super().__init__()
        self.role, self.k, self.inner = role, k, inner
        self.fired = False
        self.name = 'fault at %s #%d' % (role, k)

    def before(self, role):
        if self.inner is not None:
            self.inner.before(role)
        if role == self.role and self.counts[role] == self.k:
            with self.cv:
                self.counts[role] += 1
            self.fired = True
            raise Injected("injected fault at %s #%d" % (role, self.k))


def check_stream_prefix(rec, path, expected_stream, label):
    """Whatever reached the file is a prefix of the sequential output, contiguous, in order, nothing twice"""
    w = rec.writes(path)
    got = replay(w)
    ok = all(w[i][2] + len(w[i][3]) == w[i + 1][2] for i in range(len(w) - 1)) and (not w or w[0][2] == 0)
    check(ok, "%s: writes are not contiguous / in order" % label)
    check(expected_stream[:len(got)] == got, "%s: what was written is not a prefix of the sequential output" % label)
    return got


def run_loop_with_fault(case, queue_size, schedule, tmpdir, label, write_fail_at=None, write_partial=False,
                        patience=0.4, settle=0.08):
    """run_conversion_loop with an injected fault.  The call must not return normally; whether it raises or (as the
    unchanged library does for faults in its worker threads) never comes back is noted but is not what is checked:
    what reached the file must be a prefix of the sequential output, nothing may be written after a failed write,
    and the partial file must never read back as data it does not hold."""
    rec = new_recorder()
    rec.fail_at, rec.fail_partial = write_fail_at, write_partial
    CURRENT[0] = schedule
    path = os.path.realpath(os.path.join(tmpdir, 'fault.sgz'))
    cube, header_info, geom = case['loop_args']()
    state = {}

    def go():
        fh = _shim_open(path, 'wb')
        state['fh'] = fh
        try:
            return cu.run_conversion_loop(cube, fh, case['bpv'], case['bs'], header_info, geom, queue_size=queue_size)
        finally:
            state['events_at_exit'] = len(rec.events)

    finished, result, exc = run_with_watchdog(lambda: quiet(go), timeout=patience)
    time.sleep(settle)
    CURRENT[0] = Schedule()
    outcome = 'hung' if not finished else ('raised %s' % type(exc).__name__ if exc is not None else 'returned')
    fault_happened = any(e[0] == 'fault' for e in rec.events) or getattr(schedule, 'fired', False)
    if not fault_happened:
        # (fewer write calls were made than the index of the one that was to fail: nothing was injected)
        check(outcome == 'returned', "%s: no fault was injected, but the conversion %s" % (label, outcome))
        got = check_stream_prefix(rec, path, case['loop_output'], label)
        check(got == case['loop_output'], "%s: no fault was injected, but the output is incomplete" % label)
        state['fh'].close()
        return 'fault-not-reached', got
    check(outcome != 'returned', "%s: the conversion returned normally although a fault was injected" % label)
    if finished and exc is not None:
        check(isinstance(exc, (Injected, OSError)), "%s: unexpected exception %r" % (label, exc))
    events = list(rec.events)
    # nothing after a failed write
    idx = [i for i, e in enumerate(events) if e[0] == 'fault']
    if idx:
        check(not any(e[0] == 'write' for e in events[idx[0] + 1:]), "%s: a write followed the failed write" % label)
    got = check_stream_prefix(rec, path, case['loop_output'], label)
    try:
        state['fh'].close()
    except BaseException:
        pass
    return outcome, got


threading.excepthook = lambda args: None     # worker threads of the unchanged library die noisily on injected faults


# What this demonstration concentrates on
COALESCE_SETTINGS = (None,)
QUEUE_SIZES = (1, 2, 3, 16, 0)
FAULT_QUEUE_SIZES = (1, 2, 16)
FAULT_KINDS = ('compressor', 'write')


T0 = [time.time()]


def section(title):
    print("== [%5.1fs] %s" % (time.time() - T0[0], title))


def main():
    tmpdir = tempfile.mkdtemp(prefix='sgz-demo-')
    t0 = time.time()
    verbose = '-v' in sys.argv
    try:
        # ------------------------------------------------------------------------------------------------------------
        section("C16 a) run_conversion_loop: every schedule x queue capacity x layout against the sequential output")
        cases = [numpy_case((19, 13, 40), 4, (4, 4, -1)),
                 numpy_case((9, 17, 70), 8, (8, 8, -1), seed=1),
                 numpy_case((65, 66, 9), 2, (64, 64, 4), seed=2, extra_headers=False)]
        for coalesce in COALESCE_SETTINGS:
            if coalesce is not None:
                cu.WRITE_COALESCE_BYTES = coalesce      # (only the coalescing writer looks at this)
            for ci, case in enumerate(cases):
                write_counts = set()
                for q in QUEUE_SIZES:
                    for sch in all_schedules(case['n_produce'], case['n_items']):
                        label = "numpy %s bpv=%s queue=%d coalesce=%s %s" % (case['blockshape'], case['bits_per_voxel'],
                                                                            q, coalesce, sch.name)
                        rec = run_loop_once(case, q, sch, tmpdir, label)
                        if rec is not None:
                            write_counts.add(len(rec.writes()))
                            if verbose:
                                print("   %-75s writes=%d stalls=%d" % (label, len(rec.writes()), sch.stalls))
                print("   %s, %d pieces, coalesce=%s: write calls per conversion seen: %s"
                      % (case['blockshape'], case['n_items'], coalesce, sorted(write_counts)))

        # ------------------------------------------------------------------------------------------------------------
        section("C16 b) whole conversions through the converters (footer arrays, header fix-up, hash)")
        big_segy = make_segy(os.path.join(tmpdir, 'gen.sgy'), (13, 11, 70))
        conversions = []
        for case in cases[:2]:
            conversions.append(("numpy %s" % (case['blockshape'],), numpy_runner(case), case['file_output'],
                                case['n_produce'], case['n_items'], None))
        segy_inputs = [(big_segy, 4, None, False, 'heuristic'),
                       (big_segy, 4, None, True, 'thorough'),
                       (big_segy, 16, (8, 8, -1), False, 'exhaustive'),
                       (big_segy, 2, (64, 64, 4), True, 'strip'),
                       ('test_data/small.sgy', 8, None, True, 'heuristic'),
                       ('test_data/small-2d.sgy', 4, None, False, 'heuristic'),
                       ('test_data/small-2d.sgy', 8, (1, 8, -1), False, 'thorough'),
                       ('test_data/small-irregular.sgy', 4, None, False, 'heuristic'),
                       ('test_data/small_hole.sgy', 2, None, False, 'thorough')]
        for (p, bpv, bs, ri, hd) in segy_inputs:
            ref, n_items, _ = segy_sequential_reference(p, os.path.join(tmpdir, 'ref.sgz'), bpv, bs, ri, hd)
            for qlen in ((1, 3) if p == big_segy else (1,)):
                conversions.append(("segy %s bpv=%s bs=%s reduce_iops=%s %s queue=%s"
                                    % (os.path.basename(p), bpv, bs, ri, hd, qlen),
                                    segy_runner(p, bpv, bs, ri, hd, qlen), ref, 70, n_items, qlen))
        recorded = {}
        for (name, runner, expected, n_produce, n_items, qlen) in conversions:
            for sch in all_schedules(n_produce, n_items, seeds=(4,)):
                label = "%s %s" % (name, sch.name)
                rec = run_converter_once(runner, os.path.join(tmpdir, 'out.sgz'), expected, sch, label)
                if rec is not None and sch.name in ('free', 'writer-starved'):
                    recorded[(name, sch.name)] = (rec.writes(os.path.realpath(os.path.join(tmpdir, 'out.sgz'))), expected)
                if verbose:
                    print("   %s" % label)
        print("   %d conversions x schedules" % len(conversions))

        # ------------------------------------------------------------------------------------------------------------
        section("C18 a) every prefix of the recorded writes, and byte lengths of the finished file, read back")
        n_states = 0
        for (name, sname), (writes, expected) in recorded.items():
            writes_for_prefixes = writes
            if sname != 'free' and not name.startswith('numpy (4'):
                continue
            a, b = check_all_partials(writes_for_prefixes, expected, tmpdir, "%s [%s]" % (name, sname)) \
                if writes_for_prefixes else check_all_partials_truncations_only(writes, expected, tmpdir, name)
            n_states += a + b
        print("   %d partial files read back" % n_states)

        # ------------------------------------------------------------------------------------------------------------
        section("C16/C18 b0) a read fault in the producer during a whole SEG-Y conversion surfaces in the caller")
        for (p, bpv, bs, ri, hd) in segy_inputs[:3]:
            ref, n_items, _ = segy_sequential_reference(p, os.path.join(tmpdir, 'ref.sgz'), bpv, bs, ri, hd)
            complete = complete_battery(ref, tmpdir)
            for k in (0, 5, 12):
                for qlen in (1, 3):
                    label = "segy %s %s queue=%d, producer fault at plane %d" % (os.path.basename(p), hd, qlen, k)
                    rec = new_recorder()
                    CURRENT[0] = FaultAt('produce', k, Jitter(k))
                    out_path = os.path.join(tmpdir, 'out.sgz')
                    runner = segy_runner(p, bpv, bs, ri, hd, qlen)

                    def go():
                        with warnings.catch_warnings():
                            warnings.simplefilter('ignore')
                            runner(out_path)

                    finished, _, exc = run_with_watchdog(go, timeout=60)
                    time.sleep(0.1)
                    CURRENT[0] = Schedule()
                    check(finished and isinstance(exc, Injected), "%s: expected the injected IOError in the caller, got "
                                                                  "finished=%s exc=%r" % (label, finished, exc))
                    with builtins.open(out_path, 'rb') as f:
                        on_disk = f.read()
                    check(ref[:64] == on_disk[:64] and ref[2048:len(on_disk)] == on_disk[2048:],
                          "%s: the partial file is not a prefix of the sequential output" % label)
                    check_partial(on_disk, complete, tmpdir, label)

        # ------------------------------------------------------------------------------------------------------------
        section("C16/C18 b) injected faults: producer read fault, compressor failure, failing / short write")
        outcomes = {}
        for case in cases[:2]:
            for q in FAULT_QUEUE_SIZES:
                n_p, n_i = case['n_produce'], case['n_items']
                plans = []
                for k in sorted({0, 1, n_p // 2, n_p - 1}):
                    plans.append(("producer fault", FaultAt('produce', k), None, False))
                    plans.append(("producer fault+jitter", FaultAt('produce', k, Jitter(k + 11)), None, False))
                for k in sorted({0, n_i // 2}) if 'compressor' in FAULT_KINDS else ():
                    plans.append(("compressor fault", FaultAt('compress', k), None, False))
                for k in sorted({0, 1, (n_i + 1) // 2}) if 'write' in FAULT_KINDS else ():
                    plans.append(("failing write", Schedule(), k, False))
                    plans.append(("short write", WriterStarved(), k, True))
                for (kind, sch, wk, wpartial) in plans:
                    label = "%s, %s %s queue=%d%s" % (kind, case['blockshape'], sch.name, q,
                                                      '' if wk is None else ' write #%d' % wk)
                    outcome, got = run_loop_with_fault(case, q, sch, tmpdir, label, write_fail_at=wk,
                                                       write_partial=wpartial)
                    if outcome != 'fault-not-reached':
                        outcomes.setdefault(kind.split('+')[0], set()).add(outcome.split(' ')[0])
                    # the partial file: raises or reads back what the complete file holds
                    complete_path = os.path.join(tmpdir, 'complete.sgz')
                    with builtins.open(complete_path, 'wb') as f:
                        f.write(case['file_output'])
                    check_partial(got, battery(complete_path), tmpdir, label)
                    if verbose:
                        print("   %-70s %s, %d bytes in the file" % (label, outcome, len(got)))
        for kind, o in sorted(outcomes.items()):
            print("   %-18s -> %s" % (kind, ', '.join(sorted(o))))
        check('returned' not in set().union(*outcomes.values()), "a faulty conversion returned normally")
        check(outcomes.get('producer fault') == {'raised'}, "a producer fault must surface as an exception in the caller")
    finally:
        CURRENT[0] = Schedule()
        shutil.rmtree(tmpdir, ignore_errors=True)
    print("%d checks, %d failures, %.1fs" % (CHECKS[0], len(FAILURES), time.time() - t0))
    if FAILURES:
        print("FAILED")
        return 1
    print("OK: the output never depended on the interleaving, and no partial file read back as data")
    return 0


def complete_battery(expected, tmpdir):
    p = os.path.join(tmpdir, 'complete.sgz')
    with builtins.open(p, 'wb') as f:
        f.write(expected)
    return battery(p)


def check_all_partials_truncations_only(writes, final_bytes, tmpdir, label):
    a, b = check_all_partials([], final_bytes, tmpdir, label) if False else (0, 0)
    p = os.path.join(tmpdir, 'complete.sgz')
    with builtins.open(p, 'wb') as f:
        f.write(final_bytes)
    complete = battery(p)
    ends = set()
    for (_, _, offset, data, _) in writes:
        ends.update((offset, offset + len(data)))
    lengths = set()
    for e in ends:
        lengths.update((e - 1, e, e + 1))
    rng = random.Random(3)
    lengths.update(rng.randrange(0, len(final_bytes)) for _ in range(25))
    lengths = sorted(b for b in lengths if 0 <= b < len(final_bytes))
    for L in lengths:
        check_partial(final_bytes[:L], complete, tmpdir, "%s / truncated to %d of %d bytes" % (label, L, len(final_bytes)))
    return 0, len(lengths)


if __name__ == '__main__':
    sys.exit(main())
