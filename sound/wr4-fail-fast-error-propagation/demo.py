import sys, os
sys.path.insert(0, os.getcwd())
import io, errno, time, threading, queue, tempfile, shutil, warnings, contextlib, random, traceback
import numpy as np
import seismic_zfp
assert os.path.abspath(seismic_zfp.__file__).startswith(os.getcwd() + os.sep), seismic_zfp.__file__
warnings.simplefilter('ignore')
import segyio
import zfpy as _real_zfpy
import seismic_zfp.conversion_utils as cu
import seismic_zfp.conversion as conv
import seismic_zfp.cropping as cropping
from seismic_zfp.read import SgzReader
from seismic_zfp.conversion import SegyConverter, NumpyConverter, SgzConverter, SeismicFileConverter
from seismic_zfp.cropping import SgzCropper
from seismic_zfp.utils import generate_fake_seismic


class _D:  version = '0.4.1'
class _P:
    @staticmethod
    def get_distribution(name): return _D
cu.pkg_resources = _P

TMP = tempfile.mkdtemp(prefix='sgzdemo')
PROBLEMS = []
NOTES = []
_real_open = open
_threading_excepthook = threading.excepthook
threading.excepthook = lambda args: None     # stage threads dying on injected faults are expected on some trees


def problem(msg):
    PROBLEMS.append(msg)
    print('PROBLEM:', msg)


def quiet(fn, *a, **kw):
    return fn(*a, **kw)


# the library reports progress with print(); silence that per module (sys.stdout cannot be redirected per thread)
for _m in (cu, conv, cropping):
    _m.print = lambda *a, **kw: None
cu.progress_printer = lambda *a, **kw: None


# ---------------------------------------------------------------------------------------------------------------
# Output-side instrumentation: every file the library opens for writing is a normal io.BufferedWriter /
# BufferedRandom (or the raw object itself for buffering=0), on top of a raw file which logs each OS-level write
# (path, offset, bytes) and can inject faults, short writes and scheduling holds.
# ---------------------------------------------------------------------------------------------------------------
class IoControl:
    def __init__(self):
        self.lock = threading.Lock()
        self.reset()

    def reset(self):
        self.log = []               # (path, offset, bytes, thread name)
        self.n_raw = 0
        self.fault_at = None        # ordinal of the raw write which fails
        self.fault_persistent = True
        self.fault_partial = False  # the failing write first transfers half of its bytes (short count), then fails
        self.fault_errno = errno.ENOSPC
        self.fault_fired = threading.Event()
        self._partial_done = False
        self.short_writes = False   # every raw write transfers only about half of what it was given
        self.hold = None            # callable(k) called before the k-th raw write; may block
        self.buffer_size = io.DEFAULT_BUFFER_SIZE
        self.opened = []

    def raw_write(self, raw, b):
        with self.lock:
            k = self.n_raw
            self.n_raw += 1
        hold = self.hold
        if hold is not None:
            hold(k)
        SCHED.touch()
        mv = memoryview(b).cast('B')
        n = len(mv)
        if self.fault_at is not None:
            failing = (k == self.fault_at) or (self.fault_persistent and k > self.fault_at) or self._partial_done
            if failing:
                if self.fault_partial and not self._partial_done and n > 1:
                    self._partial_done = True
                    n = n // 2
                else:
                    self.fault_fired.set()
                    raise OSError(self.fault_errno, os.strerror(self.fault_errno))
        if self.short_writes and n > 1:
            n = (n + 1) // 2
        off = raw._f.tell()
        written = raw._f.write(mv[:n])
        with self.lock:
            self.log.append((raw._path, off, bytes(mv[:written]), threading.current_thread().name))
        SCHED.touch()
        return written

    def writes_to(self, path):
        return [e for e in self.log if e[0] == path]


CTL = IoControl()


class TracedRaw(io.RawIOBase):
    def __init__(self, path, mode):
        super().__init__()
        self._f = io.FileIO(path, mode)
        self._path = path
        self.name = path
        self.mode = mode

    def readable(self): return self._f.readable()
    def writable(self): return self._f.writable()
    def seekable(self): return True
    def fileno(self): return self._f.fileno()
    def readinto(self, b): return self._f.readinto(b)
    def seek(self, pos, whence=0): return self._f.seek(pos, whence)
    def tell(self): return self._f.tell()
    def truncate(self, size=None): return self._f.truncate(size)
    def write(self, b): return CTL.raw_write(self, b)

    def close(self):
        if not self.closed:
            try:
                super().close()
            finally:
                self._f.close()


def hooked_open(file, mode='r', buffering=-1, *args, **kwargs):
    if isinstance(file, str) and 'b' in mode and any(c in mode for c in 'wax+'):
        raw = TracedRaw(file, mode.replace('b', ''))
        CTL.opened.append(raw)
        if buffering == 0:
            return raw
        size = CTL.buffer_size if buffering in (-1, None) else buffering
        if '+' in mode:
            return io.BufferedRandom(raw, buffer_size=size)
        return io.BufferedWriter(raw, buffer_size=size)
    return _real_open(file, mode, buffering, *args, **kwargs)


for _m in (conv, cropping, cu):
    _m.open = hooked_open


def replay(entries, upto, torn=None):
    """File contents after the first `upto` logged writes (and optionally the first `torn` bytes of the next)"""
    data = bytearray()
    todo = list(entries[:upto])
    if torn is not None and upto < len(entries):
        p, off, b, t = entries[upto]
        todo.append((p, off, b[:torn], t))
    for _, off, b, _ in todo:
        if off > len(data):
            data.extend(bytes(off - len(data)))
        data[off:off + len(b)] = b
    return bytes(data)


# ---------------------------------------------------------------------------------------------------------------
# Scheduling instrumentation: hooks on queue.Queue (class level, so subclasses are covered as well), on the
# compression call and on raw writes let a scenario force who runs ahead of whom.
# ---------------------------------------------------------------------------------------------------------------
class Sched:
    def __init__(self):
        self.queues = []
        self.reset()

    def reset(self, mode=None, seed=0):
        self.mode = mode
        self.rng = random.Random(seed)
        self.producer = None
        self.last = time.monotonic()
        self.n_compress = 0
        self.compress_fault_at = None
        self.compress_fault_fired = threading.Event()
        self.read_fault_at = None
        self.n_reads = 0
        self.queues = []
        self.forced = 0
        self.unforced = 0

    def touch(self):
        self.last = time.monotonic()

    def wait_quiescent(self, idle=0.08, cap=10.0):
        """Block until no instrumented event has happened anywhere for `idle` seconds: every other thread has
        then run as far as it can (it is blocked on a queue, or done)."""
        t0 = time.monotonic()
        while True:
            now = time.monotonic()
            if now - self.last >= idle:
                self.forced += 1
                return
            if now - t0 > cap:
                self.unforced += 1
                return
            time.sleep(0.005)

    def wait_drained(self, cap=10.0):
        t0 = time.monotonic()
        while any(q.unfinished_tasks for q in list(self.queues)):
            if time.monotonic() - t0 > cap:
                self.unforced += 1
                return
            time.sleep(0.0005)
        self.forced += 1

    def jitter(self):
        d = self.rng.choice((0, 0, 0, 0.0002, 0.001, 0.003))
        if d:
            time.sleep(d)

    def before(self, op, q):
        self.touch()
        mode = self.mode
        if mode == 'jitter':
            self.jitter()
        elif mode == 'lockstep' and op == 'put' and threading.get_ident() == self.producer:
            # strictly sequential execution: nothing is in flight when the producer hands over the next item
            self.wait_drained()
        elif mode == 'slow_producer' and op == 'put' and threading.get_ident() == self.producer:
            self.wait_quiescent(idle=0.03)

    def after(self, op, q):
        self.touch()
        if self.mode == 'jitter':
            self.jitter()


SCHED = Sched()
_q_init, _q_put, _q_get, _q_task_done = queue.Queue.__init__, queue.Queue.put, queue.Queue.get, queue.Queue.task_done


def _hook_init(self, maxsize=0):
    _q_init(self, maxsize)
    SCHED.queues.append(self)


def _hook_put(self, item, block=True, timeout=None):
    SCHED.before('put', self)
    r = _q_put(self, item, block, timeout)
    SCHED.after('put', self)
    return r


def _hook_get(self, block=True, timeout=None):
    SCHED.before('get', self)
    r = _q_get(self, block, timeout)
    SCHED.after('get', self)
    return r


def _hook_task_done(self):
    SCHED.before('task_done', self)
    r = _q_task_done(self)
    SCHED.after('task_done', self)
    return r


queue.Queue.__init__, queue.Queue.put, queue.Queue.get, queue.Queue.task_done = \
    _hook_init, _hook_put, _hook_get, _hook_task_done


class _ZfpyShim:
    def __getattr__(self, name):
        return getattr(_real_zfpy, name)

    @staticmethod
    def compress_numpy(*a, **kw):
        with CTL.lock:
            k = SCHED.n_compress
            SCHED.n_compress += 1
        SCHED.touch()
        if SCHED.mode == 'hold_compressor' and k == 0:
            SCHED.wait_quiescent()
        elif SCHED.mode == 'slow_compressor':
            SCHED.wait_quiescent(idle=0.03)
        elif SCHED.mode == 'jitter':
            SCHED.jitter()
        if SCHED.compress_fault_at is not None and k >= SCHED.compress_fault_at:
            SCHED.compress_fault_fired.set()
            raise MemoryError('injected compression failure')
        r = _real_zfpy.compress_numpy(*a, **kw)
        SCHED.touch()
        return r


cu.zfpy = _ZfpyShim()


def _writer_hold(k):
    if SCHED.mode == 'hold_writer' and k == 0:
        SCHED.wait_quiescent()
    elif SCHED.mode == 'slow_writer':
        SCHED.wait_quiescent(idle=0.03)
    elif SCHED.mode == 'jitter':
        SCHED.jitter()


# read faults on the input side of a SEG-Y conversion
def _wrap_reader(name):
    real = getattr(cu, name)

    def wrapped(*a, **kw):
        with CTL.lock:
            k = SCHED.n_reads
            SCHED.n_reads += 1
        SCHED.touch()
        if SCHED.read_fault_at is not None and k >= SCHED.read_fault_at:
            raise IOError(errno.EIO, 'injected read failure on the input file')
        return real(*a, **kw)
    setattr(cu, name, wrapped)


for _n in ('io_thread_func', 'io_thread_func_2d', 'unstructured_io_thread_func'):
    _wrap_reader(_n)


# queue capacity: SEG-Y conversions take it from check_memory(), numpy conversions use the default of the loop
_CAPACITY = [None]
_real_check_memory = SeismicFileConverter.check_memory
_real_loop = conv.run_conversion_loop


def _check_memory(self, inline_set_bytes):
    n = _real_check_memory(self, inline_set_bytes)
    return n if _CAPACITY[0] is None else _CAPACITY[0]


def _loop(*a, **kw):
    if _CAPACITY[0] is not None:
        kw['queue_size'] = _CAPACITY[0]
    return _real_loop(*a, **kw)


SeismicFileConverter.check_memory = _check_memory
conv.run_conversion_loop = _loop


def run_in_thread(fn, fired=None, timeout=120.0, hang_grace=0.4):
    """Runs fn() in a thread which is registered as the producer. Returns ('ok', value), ('raised', exc) or
    ('hung', None). 'hung' is only reported after an injected fault has fired and nothing has moved for a while."""
    box = {}

    def target():
        SCHED.producer = threading.get_ident()
        try:
            box['value'] = quiet(fn)
        except BaseException as e:
            box['exc'] = e

    t = threading.Thread(target=target, daemon=True)
    t.start()
    t0 = time.monotonic()
    while t.is_alive():
        t.join(0.01)
        now = time.monotonic()
        if fired is not None and fired.is_set() and now - SCHED.last > hang_grace and t.is_alive():
            return 'hung', None
        if now - t0 > timeout:
            return 'timeout', None
    if 'exc' in box:
        return 'raised', box['exc']
    return 'ok', box.get('value')


# ---------------------------------------------------------------------------------------------------------------
# C18 oracle: a partial file either raises or agrees with the complete file, call by call
# ---------------------------------------------------------------------------------------------------------------
def same(a, b):
    if isinstance(a, np.ndarray) or isinstance(b, np.ndarray):
        return (isinstance(a, np.ndarray) and isinstance(b, np.ndarray) and a.shape == b.shape
                and a.dtype == b.dtype and np.array_equal(a, b, equal_nan=True))
    if isinstance(a, dict):
        return isinstance(b, dict) and a.keys() == b.keys() and all(same(a[k], b[k]) for k in a)
    if isinstance(a, (list, tuple)):
        return isinstance(b, (list, tuple)) and len(a) == len(b) and all(same(x, y) for x, y in zip(a, b))
    return type(a) == type(b) and a == b


def reader_calls(r):
    calls = []

    def pick(n):
        return sorted({0, n // 2, n - 1})
    if r.is_3d:
        for i in pick(r.n_ilines):
            calls.append((f'read_inline({i})', lambda r, i=i: r.read_inline(i)))
        for i in pick(r.n_xlines):
            calls.append((f'read_crossline({i})', lambda r, i=i: r.read_crossline(i)))
        for i in pick(r.n_samples):
            calls.append((f'read_zslice({i})', lambda r, i=i: r.read_zslice(i)))
        calls.append(('read_volume()', lambda r: r.read_volume()))
        calls.append(('read_subvolume(last corner)', lambda r: r.read_subvolume(
            max(0, r.n_ilines - 2), r.n_ilines, max(0, r.n_xlines - 2), r.n_xlines, max(0, r.n_samples - 3), r.n_samples)))
    else:
        calls.append(('read_subplane(all)', lambda r: r.read_subplane(0, r.tracecount, 0, r.n_samples)))
    for t in pick(r.tracecount):
        calls.append((f'get_trace({t})', lambda r, t=t: r.get_trace(t)))
        calls.append((f'gen_trace_header({t})', lambda r, t=t: dict(r.gen_trace_header(t))))
    calls.append(('gen_trace_header(last, load_all)',
                  lambda r: dict(r.gen_trace_header(r.tracecount - 1, load_all_headers=True))))
    for tf in (189, 193, 181, 1, 21):
        calls.append((f'get_tracefield_values({tf})', lambda r, tf=tf: r.get_tracefield_values(tf)))
    calls.append(('variant_headers', lambda r: (r.read_variant_headers(), dict(r.variant_headers))[1]))
    calls.append(('text header', lambda r: r.get_file_text_header()))
    calls.append(('binary header', lambda r: dict(r.get_file_binary_header())))
    calls.append(('dimensions', lambda r: (r.n_ilines, r.n_xlines, r.n_samples, r.tracecount, tuple(r.blockshape),
                                           float(r.rate))))
    return calls


def data_end_of(complete_bytes):
    p = fresh('.probe.sgz')
    with _real_open(p, 'wb') as f:
        f.write(complete_bytes)
    with SgzReader(p) as r:
        return r.data_start_bytes + r.compressed_data_diskblocks * 4096


class Oracle:
    """Results of every call on the complete file"""
    def __init__(self, complete_bytes, label):
        self.label = label
        self.complete = complete_bytes
        self.path = fresh('.oracle.sgz')
        with _real_open(self.path, 'wb') as f:
            f.write(complete_bytes)
        with SgzReader(self.path) as r:
            self.calls = reader_calls(r)
        self.expected = {}
        for name, fn in self.calls:
            with SgzReader(self.path) as r:
                try:
                    self.expected[name] = ('value', fn(r))
                except Exception as e:
                    self.expected[name] = ('raises', e)
        self.n_checked = 0
        self.n_raised_open = 0
        self.n_equal = 0
        self.n_raised = 0

    def check(self, partial_bytes, what):
        self.n_checked += 1
        p = os.path.join(TMP, 'partial.sgz')
        with _real_open(p, 'wb') as f:
            f.write(partial_bytes)
        try:
            r = SgzReader(p)
        except Exception:
            self.n_raised_open += 1
            return
        try:
            for name, fn in self.calls:
                kind, exp = self.expected[name]
                if kind == 'raises':
                    continue
                try:
                    got = quiet(fn, r)
                except Exception:
                    self.n_raised += 1
                    continue
                if same(got, exp):
                    self.n_equal += 1
                else:
                    problem(f'{self.label}: {what} ({len(partial_bytes)} of {len(self.complete)} bytes): '
                            f'{name} returned something else than the complete file does')
        finally:
            try:
                r.close()
            except Exception:
                pass

    def check_all_write_prefixes(self, entries, max_states=160):
        """Every prefix of the logged OS writes, and every write torn in the middle"""
        n = len(entries)
        states = [(k, None) for k in range(n + 1)] + [(k, len(entries[k][2]) // 2) for k in range(n)
                                                       if len(entries[k][2]) > 1]
        if len(states) > max_states:
            rng = random.Random(1)
            keep = set(range(0, 8)) | set(range(max(0, n - 24), n + 1))
            fixed = [s for s in states if s[0] in keep]
            rest = [s for s in states if s[0] not in keep]
            states = fixed + rng.sample(rest, max(0, min(len(rest), max_states - len(fixed))))
        for k, torn in states:
            self.check(replay(entries, k, torn), f'after {k} of {n} writes' + (f' + {torn} torn bytes' if torn else ''))

    def check_truncations(self, n_random=40):
        total = len(self.complete)
        lengths = {0, 1, 4, 100, 959, 960, 980, 2047, 2048, 4095, 4096, 4097, 8191, 8192, 8193, total - 1,
                   total - 4, total - 511, total - 512, total - 513, total - 4096}
        with SgzReader(self.path) as r:
            data_end = r.data_start_bytes + r.compressed_data_diskblocks * 4096
            lengths |= {data_end - 1, data_end, data_end + 1, data_end + 3, data_end + 4, data_end + 5,
                        data_end + r.header_entry_length_bytes - 1, data_end + r.header_entry_length_bytes,
                        data_end + r.padded_header_entry_length_bytes,
                        data_end + r.padded_header_entry_length_bytes + 4}
            for b in range(r.data_start_bytes, data_end + 1, max(4096, ((data_end - r.data_start_bytes) // 12) // 4096 * 4096)):
                lengths |= {b - 1, b, b + 1, b + 2048}
        rng = random.Random(2)
        lengths |= {rng.randrange(total) for _ in range(n_random)}
        for n in sorted(x for x in lengths if 0 <= x < total):
            self.check(self.complete[:n], f'truncated to {n} bytes')

    def summary(self):
        return (f'{self.n_checked} partial files: {self.n_raised_open} refused on open, '
                f'{self.n_raised} calls raised, {self.n_equal} calls agreed')


# ---------------------------------------------------------------------------------------------------------------
# Inputs
# ---------------------------------------------------------------------------------------------------------------
def make_segy(path, shape, seed):
    rng = np.random.RandomState(seed)
    arr, il, xl, sm = generate_fake_seismic(*shape)
    arr = (arr + 0.1 * rng.rand(*shape)).astype(np.float32)
    segyio.tools.from_array3D(path, arr, iline=189, xline=193, format=segyio.SegySampleFormat.IEEE_FLOAT_4_BYTE,
                              dt=4000, delrt=0)
    with segyio.open(path, 'r+') as f:
        for i in range(f.tracecount):
            il_no, xl_no = i // shape[1], i % shape[1]
            f.header[i] = {segyio.TraceField.CDP_X: 1000 + 7 * i,
                           segyio.TraceField.CDP_Y: 5 * il_no - 3 * xl_no,
                           segyio.TraceField.SourceGroupScalar: -100,
                           # same in the first and last trace, different in between: only 'thorough' notices
                           segyio.TraceField.CDP: 0 if i in (0, f.tracecount - 1) else i,
                           # identical at both ends *and* everywhere: 'thorough' drops what 'exhaustive' keeps
                           segyio.TraceField.TRACE_SEQUENCE_LINE: 42}
    return path


def numpy_case(shape, bits, blockshape, with_headers, seed=3):
    rng = np.random.RandomState(seed)
    arr, il, xl, sm = generate_fake_seismic(*shape, min_iline=10, min_xline=100)
    arr = (arr + 0.05 * rng.rand(*shape)).astype(np.float32)
    hdr = {}
    if with_headers:
        hdr = {segyio.tracefield.TraceField.CDP_X: rng.randint(0, 10000, size=shape[:2]).astype(np.int32),
               segyio.tracefield.TraceField.CDP_Y: np.arange(shape[0] * shape[1], dtype=np.int32).reshape(shape[:2])}

    def run(out):
        with NumpyConverter(arr, ilines=il, xlines=xl, samples=2.0 * sm, trace_headers=dict(hdr)) as c:
            c.run(out, bits_per_voxel=bits, blockshape=blockshape)
    return run


def segy_case(infile, ckw=None, **kw):
    def run(out):
        with SegyConverter(infile, **(ckw or {})) as c:
            c.run(out, **kw)
    return run


_counter = [0]


def fresh(suffix='.sgz'):
    _counter[0] += 1
    return os.path.join(TMP, f'out{_counter[0]}{suffix}')


def convert(case, mode=None, seed=0, capacity=None, expect='ok', **ctl):
    """One instrumented conversion. Returns (status, exception, bytes on disk afterwards, raw writes to the file)"""
    out = fresh()
    CTL.reset()
    for k, v in ctl.items():
        setattr(CTL, k, v)
    CTL.hold = _writer_hold
    SCHED.reset(mode, seed)
    _CAPACITY[0] = capacity
    fired = threading.Event()

    class AnyFired:
        @staticmethod
        def is_set():
            return CTL.fault_fired.is_set() or SCHED.compress_fault_fired.is_set()
    for k in ('compress_fault_at', 'read_fault_at'):
        if k in PENDING:
            setattr(SCHED, k, PENDING[k])
    PENDING.clear()
    status, value = run_in_thread(lambda: case(out), fired=AnyFired)
    n_log = len(CTL.log)
    on_disk = _real_open(out, 'rb').read() if os.path.exists(out) else None
    if status in ('ok', 'raised'):
        # nothing may be written once the call has returned
        time.sleep(0.03)
        later = _real_open(out, 'rb').read() if os.path.exists(out) else None
        if expect == 'ok' and (len(CTL.log) != n_log or later != on_disk):
            problem(f'output file changed after the conversion returned ({mode}, capacity {capacity})')
    if expect == 'ok' and status != 'ok':
        problem(f'conversion did not complete normally: {status} {value!r} ({mode}, seed {seed}, capacity {capacity})')
        if isinstance(value, BaseException):
            traceback.print_exception(type(value), value, value.__traceback__)
    if SCHED.unforced:
        NOTES.append(f'{mode}: {SCHED.unforced} hold(s) released by the safety cap rather than by the condition')
    return status, (value if status == 'raised' else None), on_disk, CTL.writes_to(out)


PENDING = {}


def finish(title):
    for n in sorted(set(NOTES)):
        print('note:', n)
    shutil.rmtree(TMP, ignore_errors=True)
    if PROBLEMS:
        print(f'{title}: {len(PROBLEMS)} PROBLEM(S)')
        sys.stdout.flush()
        os._exit(1)
    print(f'{title}: all checks passed')
    sys.stdout.flush()
    os._exit(0)     # threads parked on a queue (or hung behind an injected fault on some trees) must not matter


# ===============================================================================================================
# demo 1: the conversion pipeline under forced interleavings, and under failures of each of its stages
# ===============================================================================================================
def data_region_is_prefix(on_disk, complete):
    """Whatever reached the disk after the 8 kB header is a gap-free, unshifted run of the first blocks / footers"""
    return on_disk is None or on_disk[8192:] == complete[8192:len(on_disk)]


def main():
    sgy = make_segy(os.path.join(TMP, 'gen.sgy'), (18, 7, 30), 5)
    cases = {
        'numpy 4bit 4x4': numpy_case((21, 10, 40), 4, (4, 4, -1), True),
        'numpy 2bit 64x64x4': numpy_case((65, 66, 17), 2, (64, 64, 4), False),
        'numpy 8bit 8x8': numpy_case((9, 9, 70), 8, (8, 8, -1), True),
        'segy heuristic': segy_case(sgy, bits_per_voxel=8),
        'segy thorough': segy_case(sgy, bits_per_voxel=4, header_detection='thorough'),
        'segy exhaustive reduce_iops': segy_case(sgy, bits_per_voxel=2, header_detection='exhaustive', reduce_iops=True),
        'segy strip 16x16': segy_case(sgy, bits_per_voxel=8, blockshape=(16, 16, -1), header_detection='strip'),
        'segy window': segy_case(sgy, ckw=dict(min_il=1, max_il=14, min_xl=1, max_xl=6), bits_per_voxel=16),
        'segy 2d': segy_case('test_data/small-2d.sgy', bits_per_voxel=8, blockshape=(1, 4, -1)),
        'segy 2d 16-trace blocks': segy_case('test_data/small-2d.sgy', bits_per_voxel=4, blockshape=(1, 16, 512)),
        'segy irregular': segy_case('test_data/small-irregular.sgy', bits_per_voxel=8),
    }
    heavy = ('numpy 4bit 4x4', 'numpy 2bit 64x64x4', 'segy thorough', 'segy 2d')
    reference, oracles, ref_writes = {}, {}, {}

    # ---- C16: every forced schedule and queue capacity gives the bytes of the strictly sequential execution
    for name, case in cases.items():
        status, _, ref, writes = convert(case, mode='lockstep', capacity=16)
        if ref is None:
            problem(f'{name}: no output')
            continue
        reference[name], ref_writes[name] = ref, writes
        n_runs = 0
        schedules = [('hold_writer', 0, 1), ('hold_writer', 0, 2), ('hold_compressor', 0, 1), ('hold_compressor', 0, 16),
                     (None, 0, 1), (None, 0, None)]
        schedules += [('jitter', seed, cap) for seed in range(3) for cap in (1, 2, 16)]
        if name in heavy:
            schedules += [('slow_writer', 0, 1), ('slow_compressor', 0, 1), ('slow_producer', 0, 2), ('lockstep', 0, 1)]
        for mode, seed, cap in schedules:
            _, _, got, _ = convert(case, mode=mode, seed=seed, capacity=cap)
            n_runs += 1
            if got != ref:
                problem(f'{name}: output differs from the sequential one under schedule {mode}/{seed}, capacity {cap}')
        # the OS may accept fewer bytes than offered, and buffers may be tiny or huge
        for kw in (dict(short_writes=True), dict(buffer_size=512), dict(buffer_size=1 << 20),
                   dict(short_writes=True, buffer_size=3000)):
            _, _, got, _ = convert(case, mode='jitter', seed=9, capacity=2, **kw)
            n_runs += 1
            if got != ref:
                problem(f'{name}: output differs with {kw}')
        # layout: header, blocks in order, footers: the order in which the bytes reached the file is ascending
        # apart from the in-place header updates (count / table / hash, all below 2048)
        last_end = 0
        for _, off, b, _ in writes:
            if off + len(b) <= 2048 and last_end >= 8192:
                continue
            if off != last_end:
                problem(f'{name}: write at {off} does not continue at {last_end}')
                break
            last_end = off + len(b)
        print(f'C16 {name}: {n_runs} schedules, {len(ref)} bytes, {len(writes)} OS writes: identical')

    # ---- C18: every prefix of the write sequence, every torn write, many truncation lengths
    for name in reference:
        oracles[name] = o = Oracle(reference[name], name)
        o.check_all_write_prefixes(ref_writes[name])
        o.check_truncations(n_random=25 if name in heavy else 6)
        print(f'C18 {name}: {o.summary()}')

    # ---- failures inside the pipeline: the output stops growing where the failure happened
    for name in heavy:
        case, ref, o = cases[name], reference[name], oracles[name]
        n_writes = len(ref_writes[name])
        outcomes = {}

        def judge(what, status, exc, on_disk, fired):
            outcomes[status] = outcomes.get(status, 0) + 1
            if status == 'timeout':
                problem(f'{name}: {what}: neither finished nor settled')
            if status == 'ok' and fired:
                problem(f'{name}: {what}: the failure was swallowed, the conversion returned normally')
            if not data_region_is_prefix(on_disk, ref):
                problem(f'{name}: {what}: blocks on disk are not a gap-free prefix of the complete file')
            if on_disk is not None and (status != 'ok'):
                o.check(on_disk, f'{what} -> {status}')

        kinds = (dict(fault_persistent=True), dict(fault_persistent=False, fault_errno=errno.EIO),
                 dict(fault_partial=True))
        n_case = 0
        for k in sorted({0, 1, n_writes // 2, n_writes - 2, n_writes - 1}):
            if not 0 <= k < n_writes:
                continue
            for kw in kinds:
                n_case += 1
                cap = (1, 16, 2)[n_case % 3]
                status, exc, on_disk, _ = convert(case, mode=None, capacity=cap, expect='any', fault_at=k, **kw)
                judge(f'write fault at OS write {k} {kw} capacity {cap}', status, exc, on_disk, CTL.fault_fired.is_set())
        status, _, _, _ = convert(case, mode=None, capacity=16)
        n_items = SCHED.n_compress
        for k in sorted({0, 1, n_items // 2, n_items - 1}):
            for cap in ((1, 16)[k % 2],):
                PENDING['compress_fault_at'] = k
                status, exc, on_disk, _ = convert(case, mode=None, capacity=cap, expect='any')
                judge(f'compression failure at item {k} capacity {cap}', status, exc, on_disk,
                      SCHED.compress_fault_fired.is_set())
        if name.startswith('segy'):
            n_reads = SCHED.n_reads
            for k in sorted({0, 1, max(0, n_reads - 1)}):
                for cap in (1, 16):
                    PENDING['read_fault_at'] = k
                    status, exc, on_disk, _ = convert(case, mode=None, capacity=cap, expect='any')
                    if status == 'ok':
                        problem(f'{name}: read fault at plane set {k} was swallowed')
                    judge(f'input read failure at plane set {k} capacity {cap}', status, exc, on_disk, False)
        print(f'faults {name}: outcomes {outcomes}; {o.summary()}')

    finish('demo1')


main()
