import sys, os
sys.path.insert(0, os.getcwd())
import io
import shutil
import tempfile
import threading
import time
import traceback
import warnings
warnings.filterwarnings("ignore")

import numpy as np
import zfpy
import seismic_zfp
assert os.path.abspath(seismic_zfp.__file__).startswith(os.path.abspath(os.getcwd()) + os.sep), seismic_zfp.__file__
import seismic_zfp.conversion_utils as cu
from seismic_zfp.read import SgzReader
from seismic_zfp.segyio_emulator import SegyioEmulator
from seismic_zfp.utils import FileOffset

BLOCK = 4096
FAILURES = []
CHECKS = [0]


def fail(msg):
    FAILURES.append(msg)
    if len(FAILURES) <= int(os.environ.get('DEMO_MAX_PRINT', '40')):
        print("FAIL:", msg)


def check(cond, msg):
    CHECKS[0] += 1
    if not cond:
        fail(msg)
    return cond


# --------------------------------------------------------------------------------------------------------------
# Writing files (the installed version string cannot be parsed, see the environment notes)
# --------------------------------------------------------------------------------------------------------------
class _D:
    version = '0.4.1'


class _P:
    @staticmethod
    def get_distribution(name):
        return _D


cu.pkg_resources = _P


def write_numpy_sgz(path, shape, bits, blockshape=(4, 4, -1), seed=0, headers=True):
    import segyio
    from seismic_zfp.conversion import NumpyConverter
    rng = np.random.default_rng(seed)
    n_il, n_xl, n_s = shape
    i, x, s = np.meshgrid(np.arange(n_il), np.arange(n_xl), np.arange(n_s), indexing='ij')
    arr = (np.sin(0.31 * i + 0.17 * x + 0.05 * s) * 100 + rng.standard_normal(shape) * 5 + i * 7 - x * 3)
    arr = arr.astype(np.float32)
    ilines = np.arange(100, 100 + n_il, dtype=np.int32)
    xlines = np.arange(200, 200 + 2 * n_xl, 2, dtype=np.int32)
    samples = np.arange(0, 4 * n_s, 4)
    th = {}
    if headers:
        th[segyio.tracefield.TraceField.INLINE_3D] = np.broadcast_to(ilines[:, None], (n_il, n_xl)).astype(np.int32)
        th[segyio.tracefield.TraceField.CROSSLINE_3D] = np.broadcast_to(xlines[None, :], (n_il, n_xl)).astype(np.int32)
        th[segyio.tracefield.TraceField.CDP_X] = (1000 + 13 * i[:, :, 0] + x[:, :, 0]).astype(np.int32)
    stdout = sys.stdout
    sys.stdout = io.StringIO()
    try:
        with NumpyConverter(arr, ilines=ilines, xlines=xlines, samples=samples, trace_headers=th) as c:
            c.run(path, bits_per_voxel=bits, blockshape=blockshape)
    finally:
        sys.stdout = stdout
    return path


# --------------------------------------------------------------------------------------------------------------
# An independent model of a file: geometry from the parsed header, samples decoded disk block by disk block
# straight from the bytes of the file with zfpy (no loader code involved), headers from the raw footer
# --------------------------------------------------------------------------------------------------------------
class Model(object):
    def __init__(self, path):
        self.path = path
        with open(path, 'rb') as f:
            self.raw = f.read()
        with SgzReader(path) as r:
            self.is_3d = r.is_3d
            self.n_il, self.n_xl, self.n_s = r.n_ilines, r.n_xlines, r.n_samples
            self.shape_pad, self.bs, self.rate = tuple(r.shape_pad), tuple(r.blockshape), r.rate
            self.data_start = r.data_start_bytes
            self.cdb = r.compressed_data_diskblocks
            self.tracecount = r.tracecount
            self.structured = r.structured
            self.template = dict(r.segy_traceheader_template)
            self.hel = r.header_entry_length_bytes
            self.chunk_bytes, self.unit_bytes = r.chunk_bytes, r.unit_bytes
            self.ilines = None if not r.is_3d else np.array(r.ilines)
            self.xlines = None if not r.is_3d else np.array(r.xlines)
            self.zslices = np.array(r.zslices)
        self.default_layout = self.is_3d and self.bs[0] == 4 and self.bs[1] == 4
        self.tile_layout = self.is_3d and not self.default_layout and self.bs[2] == 4
        self.nb = tuple(a // b for a, b in zip(self.shape_pad, self.bs))
        ztype = zfpy.dtype_to_ztype(np.dtype('float32'))
        sec = self.raw[self.data_start:self.data_start + self.cdb * BLOCK]
        assert len(sec) == self.cdb * BLOCK, "fixture itself is incomplete"
        cube = np.zeros(self.shape_pad, dtype=np.float32)
        bs, nb = self.bs, self.nb
        for i in range(nb[0]):
            for x in range(nb[1]):
                for z in range(nb[2]):
                    k = (i * nb[1] + x) * nb[2] + z
                    blk = sec[k * BLOCK:(k + 1) * BLOCK]
                    if self.is_3d:
                        dec = zfpy._decompress(blk, ztype, bs, rate=self.rate)
                    else:
                        dec = zfpy._decompress(blk, ztype, (bs[1], bs[2]), rate=self.rate).reshape(bs)
                    cube[i * bs[0]:(i + 1) * bs[0], x * bs[1]:(x + 1) * bs[1], z * bs[2]:(z + 1) * bs[2]] = dec
        self.cube = cube
        self.offsets = sorted(set(int(v) for v in self.template.values() if isinstance(v, FileOffset)))
        self.arrays = {}
        for off in self.offsets:
            self.arrays[off] = np.frombuffer(self.raw[off:off + self.hel], dtype=np.int32)
        self.mask = None
        if self.is_3d and not self.structured:
            off = self.template[189]
            if isinstance(off, FileOffset):
                self.mask = self.arrays[int(off)] != 0

    # expected results ------------------------------------------------------------------------------------
    def header(self, index):
        out = {}
        for k, v in self.template.items():
            if isinstance(v, FileOffset):
                arr = self.arrays[int(v)]
                if self.is_3d and not self.structured:
                    arr = arr[self.mask]
                out[k] = int(arr[index])
            else:
                out[k] = int(v)
        return out

    def padded_index(self, index):
        if self.is_3d and not self.structured:
            return int(np.arange(self.mask.shape[0])[self.mask][index])
        return index

    def trace(self, index, z0=None, z1=None, mapped=True):
        if not self.is_3d:
            return self.cube[0, index, 0:self.n_s]
        if mapped:
            index = self.padded_index(index)
        il, xl = index // self.n_xl, index % self.n_xl
        z0 = 0 if z0 is None else z0
        z1 = self.n_s if z1 is None else z1
        return np.squeeze(self.cube[il, xl, z0:z1])

    # the 4 KiB blocks (numbered from the start of the data section) a call has to touch ---------------------
    def block_id(self, bi, bx, bz):
        return (bi * self.nb[1] + bx) * self.nb[2] + bz

    def blocks_of_box(self, il0, il1, xl0, xl1, z0, z1):
        bs = self.bs
        out = set()
        for bi in range(il0 // bs[0], (il1 - 1) // bs[0] + 1):
            for bx in range(xl0 // bs[1], (xl1 - 1) // bs[1] + 1):
                for bz in range(z0 // bs[2], (z1 - 1) // bs[2] + 1):
                    out.add(self.block_id(bi, bx, bz))
        return out


def same(a, b):
    a = np.asarray(a)
    b = np.asarray(b)
    return a.shape == b.shape and np.array_equal(a.astype(np.float64), b.astype(np.float64))


# --------------------------------------------------------------------------------------------------------------
# Calls: (label, function of a reader -> result, function of the model -> expected result, blocks or None)
# --------------------------------------------------------------------------------------------------------------
class Call(object):
    def __init__(self, label, run, expect, blocks=None, is_header=False):
        self.label, self.run, self.expect, self.blocks, self.is_header = label, run, expect, blocks, is_header

    def verify(self, result, m):
        exp = self.expect(m)
        if self.is_header:
            return {int(k): int(v) for k, v in result.items()} == {int(k): int(v) for k, v in exp.items()}
        return same(result, exp)


def sample_calls(m, rng, n_each=3, light=False):
    """A spread of read calls with their expected values and expected block sets"""
    calls = []
    if not m.is_3d:
        idxs = sorted(set([0, m.tracecount - 1] + [int(v) for v in rng.integers(0, m.tracecount, n_each)]))
        for t in idxs:
            g = t // m.bs[1]
            calls.append(Call("get_trace(%d)" % t, lambda r, t=t: r.get_trace(t), lambda m, t=t: m.trace(t),
                              m.blocks_of_box(0, 1, g * m.bs[1], (g + 1) * m.bs[1], 0, m.n_s)))
        for _ in range(n_each):
            t0 = int(rng.integers(0, m.tracecount - 1)); t1 = int(rng.integers(t0 + 1, m.tracecount + 1))
            z0 = int(rng.integers(0, m.n_s - 1)); z1 = int(rng.integers(z0 + 1, m.n_s + 1))
            calls.append(Call("read_subplane(%d,%d,%d,%d)" % (t0, t1, z0, z1),
                              lambda r, a=(t0, t1, z0, z1): r.read_subplane(*a),
                              lambda m, a=(t0, t1, z0, z1): m.cube[0, a[0]:a[1], a[2]:a[3]],
                              m.blocks_of_box(0, 1, t0, t1, z0, z1)))
        for t in idxs[:2]:
            calls.append(Call("gen_trace_header(%d)" % t, lambda r, t=t: r.gen_trace_header(t),
                              lambda m, t=t: m.header(t), None, is_header=True))
        return calls

    n_il, n_xl, n_s = m.n_il, m.n_xl, m.n_s
    ils = sorted(set([0, n_il - 1] + [int(v) for v in rng.integers(0, n_il, n_each)]))
    xls = sorted(set([0, n_xl - 1] + [int(v) for v in rng.integers(0, n_xl, n_each)]))
    zs = sorted(set([0, n_s - 1] + [int(v) for v in rng.integers(0, n_s, n_each)]))
    for il in ils:
        g = il // 4 if m.default_layout else None
        blocks = (m.blocks_of_box(4 * g, 4 * g + 4, 0, m.shape_pad[1], 0, m.shape_pad[2]) if m.default_layout
                  else m.blocks_of_box(il, il + 1, 0, n_xl, 0, n_s))
        calls.append(Call("read_inline(%d)" % il, lambda r, il=il: r.read_inline(il),
                          lambda m, il=il: m.cube[il, 0:m.n_xl, 0:m.n_s], blocks))
    for xl in xls:
        g = xl // 4
        blocks = (m.blocks_of_box(0, m.shape_pad[0], 4 * g, 4 * g + 4, 0, m.shape_pad[2]) if m.default_layout
                  else m.blocks_of_box(0, n_il, xl, xl + 1, 0, n_s))
        calls.append(Call("read_crossline(%d)" % xl, lambda r, xl=xl: r.read_crossline(xl),
                          lambda m, xl=xl: m.cube[0:m.n_il, xl, 0:m.n_s], blocks))
    for z in zs:
        if m.default_layout or m.tile_layout:
            blocks = m.blocks_of_box(0, m.shape_pad[0], 0, m.shape_pad[1], z, z + 1)
        else:
            blocks = m.blocks_of_box(0, n_il, 0, n_xl, z, z + 1)
        calls.append(Call("read_zslice(%d)" % z, lambda r, z=z: r.read_zslice(z),
                          lambda m, z=z: m.cube[0:m.n_il, 0:m.n_xl, z], blocks))
    for _ in range(n_each + 1):
        a0 = int(rng.integers(0, n_il)); a1 = int(rng.integers(a0 + 1, n_il + 1))
        b0 = int(rng.integers(0, n_xl)); b1 = int(rng.integers(b0 + 1, n_xl + 1))
        c0 = int(rng.integers(0, n_s)); c1 = int(rng.integers(c0 + 1, n_s + 1))
        box = (a0, a1, b0, b1, c0, c1)
        calls.append(Call("read_subvolume%r" % (box,), lambda r, box=box: r.read_subvolume(*box),
                          lambda m, box=box: m.cube[box[0]:box[1], box[2]:box[3], box[4]:box[5]],
                          m.blocks_of_box(*box)))
    tcs = sorted(set([0, m.tracecount - 1] + [int(v) for v in rng.integers(0, m.tracecount, n_each)]))
    for t in tcs:
        p = m.padded_index(t)
        il, xl = p // n_xl, p % n_xl
        calls.append(Call("get_trace(%d)" % t, lambda r, t=t: r.get_trace(t), lambda m, t=t: m.trace(t),
                          m.blocks_of_box(il, il + 1, xl, xl + 1, 0, n_s) if m.structured else None))
        z0 = int(rng.integers(0, n_s - 1)); z1 = int(rng.integers(z0 + 1, n_s + 1))
        calls.append(Call("get_trace(%d,%d,%d)" % (t, z0, z1), lambda r, a=(t, z0, z1): r.get_trace(*a),
                          lambda m, a=(t, z0, z1): m.trace(*a),
                          m.blocks_of_box(il, il + 1, xl, xl + 1, z0, z1) if m.structured else None))
    if not light:
        cd = int(rng.integers(-n_xl + 1, n_il))
        calls.append(Call("read_correlated_diagonal(%d)" % cd, lambda r, cd=cd: r.read_correlated_diagonal(cd),
                          lambda m, cd=cd: np.array([m.cube[d + max(cd, 0), d + max(-cd, 0), 0:m.n_s] for d in range(
                              len(range(max(cd, 0), min(m.n_il, m.n_xl + cd))))]), None))
        ad = int(rng.integers(0, n_il + n_xl - 1))

        def exp_ad(m, ad=ad):
            rows = []
            for il in range(m.n_il):
                xl = ad - il
                if 0 <= xl < m.n_xl:
                    rows.append(m.cube[il, xl, 0:m.n_s])
            return np.array(rows)
        calls.append(Call("read_anticorrelated_diagonal(%d)" % ad,
                          lambda r, ad=ad: r.read_anticorrelated_diagonal(ad), exp_ad, None))
        calls.append(Call("read_volume()", lambda r: r.read_volume(),
                          lambda m: m.cube[0:m.n_il, 0:m.n_xl, 0:m.n_s], None))
    if m.offsets:
        for t in tcs[:3]:
            calls.append(Call("gen_trace_header(%d)" % t, lambda r, t=t: r.gen_trace_header(t),
                              lambda m, t=t: m.header(t), None, is_header=True))
        if m.structured:
            calls.append(Call("get_tracefield_values(189)", lambda r: r.get_tracefield_values(189),
                              lambda m: m.arrays[int(m.template[189])].reshape((m.n_il, m.n_xl)), None))
    return calls


# --------------------------------------------------------------------------------------------------------------
# A local handle which records every read and can be told to fail
# --------------------------------------------------------------------------------------------------------------
class Fault(Exception):
    pass


class SpyFile(object):
    """Binary handle over the bytes of a file. Logs (offset, requested, delivered) per read operation.
    `plan` maps the ordinal of a read operation (0-based, counted from the last reset) to 'raise', 'short',
    'empty' or 'none' (readinto only)."""
    def __init__(self, path, with_readinto=True, data=None):
        self.name = path
        if data is None:
            with open(path, 'rb') as f:
                data = f.read()
        self._data = data
        self._pos = 0
        self.closed = False
        self.log = []
        self.plan = {}
        self.n_ops = 0
        self.lock = threading.Lock()
        if with_readinto:
            self.readinto = self._readinto

    def reset(self, plan=None):
        self.log = []
        self.n_ops = 0
        self.plan = dict(plan or {})

    def seek(self, offset, whence=0):
        if whence == 0:
            self._pos = offset
        elif whence == 1:
            self._pos += offset
        else:
            self._pos = len(self._data) + offset
        return self._pos

    def tell(self):
        return self._pos

    def _next(self, length):
        with self.lock:
            k = self.n_ops
            self.n_ops += 1
        mode = self.plan.get(k)
        pos = self._pos
        if mode == 'raise':
            self.log.append((pos, length, -1))
            raise Fault("injected failure of read operation %d at %d+%d" % (k, pos, length))
        part = self._data[pos:pos + length]
        if mode == 'short':
            part = part[:max(0, len(part) // 2)]
        elif mode == 'short1':
            part = part[:max(0, len(part) - 1)]
        elif mode == 'empty':
            part = b''
        self._pos = pos + len(part)
        self.log.append((pos, length, len(part)))
        return part, mode

    def read(self, length=-1):
        if length is None or length < 0:
            length = max(0, len(self._data) - self._pos)
        part, _ = self._next(length)
        return part

    def _readinto(self, b):
        view = memoryview(b).cast('B')
        part, mode = self._next(len(view))
        view[:len(part)] = part
        if mode == 'none':
            return None
        return len(part)

    def close(self):
        self.closed = True


def data_reads(log, m):
    """(offset, length) of the reads a call made, relative to the data section; complains about anything else"""
    out = []
    for off, req, got in log:
        out.append((off - m.data_start, req))
    return out


def check_proportional(label, log, m, blocks):
    """C07 for one uncached call: inside the data section, exactly the expected blocks, no byte twice"""
    ok = True
    seen = []
    touched = set()
    for off, req, got in log:
        rel = off - m.data_start
        if rel < 0 or rel + req > m.cdb * BLOCK:
            ok = check(False, "%s: read %d+%d lies outside the data section" % (label, off, req)) and ok
            continue
        if req <= 0:
            continue
        seen.append((rel, rel + req))
        touched.update(range(rel // BLOCK, (rel + req - 1) // BLOCK + 1))
    seen.sort()
    for (a0, a1), (b0, b1) in zip(seen, seen[1:]):
        if b0 < a1:
            ok = check(False, "%s: bytes %d..%d fetched twice" % (label, b0, min(a1, b1))) and ok
            break
    if blocks is not None:
        ok = check(touched == blocks, "%s: touched blocks %s, expected %s" % (
            label, sorted(touched ^ blocks)[:8], len(blocks))) and ok
    return ok


# --------------------------------------------------------------------------------------------------------------
# A blob client look-alike: records ranges, can fail by offset, can hold requests back and complete them in a
# chosen order (however many happen to be in flight together)
# --------------------------------------------------------------------------------------------------------------
class _Download(object):
    def __init__(self, blob, offset, length):
        self.blob, self.offset, self.length = blob, offset, length

    def readall(self):
        return self.blob._deliver(self.offset, self.length)


class FakeBlob(object):
    def __init__(self, path, data=None):
        self.blob_name = os.path.basename(path)
        if data is None:
            with open(path, 'rb') as f:
                data = f.read()
        self._data = data
        self.lock = threading.Lock()
        self.log = []
        self.threads = set()
        self.fail = {}        # offset -> 'raise' | 'short' | 'empty'
        self.order = None     # None: answer at once. 'reverse' | 'shuffle': hold and release in that order
        self.rng = np.random.default_rng(5)
        self.waiting = []
        self.last_arrival = 0.0
        self.stop = False
        self.controller = None
        self.max_in_flight = 0
        self.in_flight = 0

    def reset(self, fail=None, order=None):
        with self.lock:
            self.log = []
            self.fail = dict(fail or {})
            self.order = order
            self.max_in_flight = 0
        if order is not None and self.controller is None:
            self.controller = threading.Thread(target=self._control, daemon=True)
            self.controller.start()

    def download_blob(self, offset=None, length=None):
        return _Download(self, offset, length)

    def _control(self):
        while not self.stop:
            time.sleep(0.002)
            with self.lock:
                if not self.waiting or time.monotonic() - self.last_arrival < 0.012:
                    continue
                batch, self.waiting = self.waiting, []
                order = self.order
            if order == 'reverse':
                batch = batch[::-1]
            elif order == 'shuffle':
                batch = [batch[i] for i in self.rng.permutation(len(batch))]
            elif order == 'by_offset_desc':
                batch = sorted(batch, key=lambda t: -t[0])
            for _, go, gone in batch:
                go.set()
                gone.wait(1.0)

    def _deliver(self, offset, length):
        with self.lock:
            self.log.append((offset, length, length))
            self.threads.add(threading.get_ident())
            self.in_flight += 1
            self.max_in_flight = max(self.max_in_flight, self.in_flight)
            hold = self.order is not None
            mode = self.fail.get(offset)
            if hold:
                go, gone = threading.Event(), threading.Event()
                self.waiting.append((offset, go, gone))
                self.last_arrival = time.monotonic()
        try:
            if hold:
                go.wait(20.0)
            if mode == 'raise':
                raise Fault("injected failure of the range request at %d+%d" % (offset, length))
            part = self._data[offset:offset + length]
            if mode == 'short':
                part = part[:len(part) // 2]
            elif mode == 'short1':
                part = part[:-1]
            elif mode == 'empty':
                part = b''
            return part
        finally:
            with self.lock:
                self.in_flight -= 1
            if hold:
                gone.set()

    def shutdown(self):
        self.stop = True


def run_call(call, reader):
    """-> ('ok', result) | ('raised', exception)"""
    try:
        return 'ok', call.run(reader)
    except Exception as e:      # noqa
        return 'raised', e


# --------------------------------------------------------------------------------------------------------------
# Suites
# --------------------------------------------------------------------------------------------------------------
def suite_values_and_blocks(m, seed, with_readinto=True):
    """Every call on a fresh reader over a recording handle: true value, exactly the expected blocks, and opening
    touches the header blocks only"""
    rng = np.random.default_rng(seed)
    for call in sample_calls(m, rng):
        spy = SpyFile(m.path, with_readinto=with_readinto, data=m.raw)
        r = SgzReader(spy)
        for off, req, got in spy.log:
            check(off + req <= m.data_start, "%s: opening read %d+%d beyond the header blocks" % (m.path, off, req))
        spy.reset()
        state, res = run_call(call, r)
        if not check(state == 'ok', "%s %s raised %r" % (m.path, call.label, res)):
            continue
        check(call.verify(res, m), "%s %s: wrong value" % (m.path, call.label))
        if call.blocks is not None:
            check_proportional("%s %s" % (os.path.basename(m.path), call.label), spy.log, m, call.blocks)
        if call.is_header and m.structured and m.is_3d:
            check(sorted((o, q) for o, q, g in spy.log) ==
                  sorted((off + 4 * int(call.label.split('(')[1][:-1]), 4) for off in m.offsets),
                  "%s %s: a header costs 4 bytes per stored array, got %s" % (m.path, call.label, spy.log))
        r.loader.clear_cache()


def suite_preload(m, seed):
    rng = np.random.default_rng(seed)
    spy = SpyFile(m.path, data=m.raw)
    r = SgzReader(spy, preload=True)
    inside = [(o, q) for o, q, g in spy.log if o + q > m.data_start]
    check(inside == [(m.data_start, m.cdb * BLOCK)], "%s: preload fetched %s" % (m.path, inside[:5]))
    spy.reset()
    for call in sample_calls(m, rng):
        state, res = run_call(call, r)
        if check(state == 'ok', "%s preload %s raised %r" % (m.path, call.label, res)):
            check(call.verify(res, m), "%s preload %s: wrong value" % (m.path, call.label))
    again = [(o, q) for o, q, g in spy.log if m.data_start <= o < m.data_start + m.cdb * BLOCK]
    check(again == [], "%s: data section fetched again after preload: %s" % (m.path, again[:5]))
    r.loader.clear_cache()
    # a preload which cannot be completed does not produce a reader
    for mode in ('raise', 'short', 'short1', 'empty'):
        spy = SpyFile(m.path, data=m.raw)
        n_open = len(SgzReaderOpenOps(m))
        spy.reset({n_open: mode})
        try:
            r = SgzReader(spy, preload=True)
            check(False, "%s: preload with a %s data read produced a reader" % (m.path, mode))
        except Exception:
            check(True, "")


def SgzReaderOpenOps(m):
    spy = SpyFile(m.path, data=m.raw)
    SgzReader(spy)
    return list(spy.log)


def suite_local_faults(m, seed, with_readinto=True, modes=('raise', 'short', 'short1', 'empty')):
    """Each read operation of each call fails in turn: the call raises, nothing is remembered, the next call on
    the same reader gives the true value"""
    rng = np.random.default_rng(seed)
    calls = sample_calls(m, rng, n_each=1, light=True)
    for call in calls:
        spy = SpyFile(m.path, with_readinto=with_readinto, data=m.raw)
        r = SgzReader(spy)
        spy.reset()
        state, res = run_call(call, r)
        n_ops = spy.n_ops
        r.loader.clear_cache()
        if n_ops == 0 or state != 'ok':
            check(state == 'ok', "%s %s raised without faults: %r" % (m.path, call.label, res))
            continue
        ks = sorted(set([0, n_ops - 1, n_ops // 2] + [int(v) for v in rng.integers(0, n_ops, 2)]))
        for k in ks:
            for mode in modes:
                spy = SpyFile(m.path, with_readinto=with_readinto, data=m.raw)
                r = SgzReader(spy)
                spy.reset({k: mode})
                state, res = run_call(call, r)
                if state == 'ok':
                    # tolerated only if the value is nevertheless the true one (never the case today)
                    check(False, "%s %s: read operation %d/%d was %s but the call returned%s" % (
                        m.path, call.label, k, n_ops, mode, "" if call.verify(res, m) else " A WRONG VALUE"))
                else:
                    check(True, "")
                spy.reset()
                state, res = run_call(call, r)
                check(state == 'ok' and call.verify(res, m),
                      "%s %s: wrong after a failed attempt (%s at op %d): %r" % (m.path, call.label, mode, k, state))
                r.loader.clear_cache()


def suite_blob(m, seed, orders=(None, 'reverse', 'shuffle'), n_each=1):
    """The remote backend: same values, same ranges (as blocks) as locally, whatever the completion order"""
    rng = np.random.default_rng(seed)
    calls = sample_calls(m, rng, n_each=n_each, light=True)
    blob = FakeBlob(m.path, data=m.raw)
    try:
        for order in orders:
            for call in calls:
                blob.reset(order=None)
                r = SgzReader(blob)
                check(r.local is False, "blob reader thinks it is local")
                for off, req, got in blob.log:
                    check(off + req <= m.data_start, "%s blob: opening read %d+%d beyond header" % (m.path, off, req))
                blob.reset(order=order)
                state, res = run_call(call, r)
                if check(state == 'ok', "%s blob[%s] %s raised %r" % (m.path, order, call.label, res)):
                    check(call.verify(res, m), "%s blob[%s] %s: wrong value" % (m.path, order, call.label))
                    if call.blocks is not None:
                        check_proportional("%s blob[%s] %s" % (os.path.basename(m.path), order, call.label),
                                           blob.log, m, call.blocks)
                r.loader.clear_cache()
    finally:
        blob.shutdown()


def suite_blob_faults(m, seed, orders=(None, 'reverse'), modes=('raise', 'short', 'empty')):
    rng = np.random.default_rng(seed)
    calls = sample_calls(m, rng, n_each=1, light=True)
    blob = FakeBlob(m.path, data=m.raw)
    try:
        for call in calls:
            blob.reset()
            r = SgzReader(blob)
            blob.reset()
            state, res = run_call(call, r)
            r.loader.clear_cache()
            offsets = sorted(set(o for o, q, g in blob.log))
            if not offsets:
                continue
            picks = sorted(set([offsets[0], offsets[-1], offsets[len(offsets) // 2]]))
            for off in picks:
                for mode in modes:
                    for order in orders:
                        blob.reset()
                        r = SgzReader(blob)
                        blob.reset(fail={off: mode}, order=order)
                        state, res = run_call(call, r)
                        check(state == 'raised', "%s blob[%s] %s: range at %d was %s but the call returned%s" % (
                            m.path, order, call.label, off, mode,
                            "" if state != 'ok' or call.verify(res, m) else " A WRONG VALUE"))
                        blob.reset()
                        state, res = run_call(call, r)
                        check(state == 'ok' and call.verify(res, m),
                              "%s blob %s: wrong after a failed attempt" % (m.path, call.label))
                        r.loader.clear_cache()
    finally:
        blob.shutdown()


def suite_histories(m, seed, steps=60):
    """Random histories over a mix of readers, preload on and off, chunk cache sizes including 1, emulator
    accessors, with other readers opened and closed meanwhile: every value is the true one"""
    rng = np.random.default_rng(seed)
    calls = sample_calls(m, rng, n_each=2)
    readers = {
        'plain': SgzReader(m.path),
        'preload': SgzReader(m.path, preload=True),
        'cache1': SgzReader(m.path, chunk_cache_size=1),
        'handle': SgzReader(SpyFile(m.path, data=m.raw)),
        'preload_cache1': SgzReader(m.path, preload=True, chunk_cache_size=1),
    }
    emu = SegyioEmulator(m.path)
    bystanders = []
    try:
        for step in range(steps):
            what = int(rng.integers(0, 10))
            if what == 0:
                bystanders.append(SgzReader(m.path, preload=bool(rng.integers(0, 2))))
            elif what == 1 and bystanders:
                bystanders.pop(int(rng.integers(0, len(bystanders)))).close()
            elif what == 2 and m.is_3d:
                # the segyio-style accessors, all on the emulator's one handle
                k = int(rng.integers(0, 6))
                if k == 0:
                    i = int(rng.integers(0, m.n_il))
                    check(same(emu.iline[int(m.ilines[i])], m.cube[i, :m.n_xl, :m.n_s]), "%s emu.iline" % m.path)
                elif k == 1:
                    x = int(rng.integers(0, m.n_xl))
                    check(same(emu.xline[int(m.xlines[x])], m.cube[:m.n_il, x, :m.n_s]), "%s emu.xline" % m.path)
                elif k == 2:
                    z = int(rng.integers(0, m.n_s))
                    check(same(emu.depth_slice[z], m.cube[:m.n_il, :m.n_xl, z]), "%s emu.depth_slice" % m.path)
                elif k == 3:
                    t = int(rng.integers(0, m.tracecount))
                    check(same(emu.trace[t], m.trace(t)), "%s emu.trace" % m.path)
                elif k == 4 and m.offsets:
                    t = int(rng.integers(0, m.tracecount))
                    got = emu.header[t]
                    check({int(a): int(b) for a, b in got.items()} == m.header(t), "%s emu.header" % m.path)
                else:
                    t = int(rng.integers(0, m.tracecount))
                    check(same(emu.get_trace(t), m.trace(t)), "%s emu.get_trace" % m.path)
            elif what == 3:
                # a read which meets a one-shot fault on its first read operation (if it needs any)
                call = calls[int(rng.integers(0, len(calls)))]
                spy = readers['handle'].file
                spy.reset({0: ['raise', 'short', 'short1', 'empty'][int(rng.integers(0, 4))]})
                state, res = run_call(call, readers['handle'])
                check(state == 'raised' or (spy.n_ops == 0 and call.verify(res, m)),
                      "%s history[%d] %s with a failing read returned" % (m.path, step, call.label))
                spy.reset()
            else:
                name = list(readers)[int(rng.integers(0, len(readers)))]
                call = calls[int(rng.integers(0, len(calls)))]
                state, res = run_call(call, readers[name])
                if check(state == 'ok', "%s history[%d] %s.%s raised %r" % (m.path, step, name, call.label, res)):
                    check(call.verify(res, m), "%s history[%d] %s.%s: wrong value" % (m.path, step, name, call.label))
    finally:
        for r in list(readers.values()) + bystanders:
            r.close()
        emu.close()


def suite_truncated(m, seed, tmp, max_lengths=60):
    """Every truncation of the file, opened and read: raises or gives what the complete file gives"""
    rng = np.random.default_rng(seed)
    calls = sample_calls(m, rng, n_each=1, light=True)
    size = len(m.raw)
    lengths = set([0, 1, 3, 76, 979, 2048, size - 1, size - 4, size - 511, size - 513])
    for b in range(0, size + 1, BLOCK):
        lengths.update([b, b - 1, b + 1, b + 17])
    for off in m.offsets:
        lengths.update([off, off + 3, off + 4, off + m.hel - 1, off + m.hel])
    lengths = sorted(v for v in lengths if 0 <= v < size)
    if len(lengths) > max_lengths:
        keep = set(lengths[:6] + lengths[-12:])
        keep.update(int(v) for v in rng.choice(lengths, max_lengths - len(keep), replace=False))
        lengths = sorted(keep)
    path = os.path.join(tmp, "cut_" + os.path.basename(m.path))
    for n in lengths:
        with open(path, 'wb') as f:
            f.write(m.raw[:n])
        for kwargs in ({}, {'preload': True}):
            try:
                r = SgzReader(path, **kwargs)
            except Exception:
                check(True, "")
                continue
            try:
                for call in calls:
                    state, res = run_call(call, r)
                    if state == 'ok':
                        check(call.verify(res, m), "%s cut to %d bytes %r: %s returned a value which the complete "
                              "file does not give" % (m.path, n, kwargs, call.label))
            finally:
                r.close()
    os.remove(path)


def suite_threads_separate_readers(m, seed, n_threads=4, rounds=12):
    """Several threads, each with readers of its own on the same file (the loader caches are shared between
    instances): true values throughout"""
    errors = []
    start = threading.Barrier(n_threads)

    def work(k):
        try:
            rng = np.random.default_rng(seed + k)
            calls = sample_calls(m, rng, n_each=1, light=True)
            r = SgzReader(m.path, chunk_cache_size=1 if k % 2 else None, preload=(k % 3 == 0))
            start.wait(10)
            for i in range(rounds):
                call = calls[int(rng.integers(0, len(calls)))]
                state, res = run_call(call, r)
                if state != 'ok' or not call.verify(res, m):
                    errors.append("%s thread %d %s: %s" % (m.path, k, call.label, state))
            r.close()
        except Exception:
            errors.append(traceback.format_exc())
    ts = [threading.Thread(target=work, args=(k,)) for k in range(n_threads)]
    [t.start() for t in ts]
    [t.join() for t in ts]
    check(not errors, "; ".join(errors[:3]))


def suite_emulator_faults(m, seed):
    """The segyio-style emulator over one recording handle shared by its accessors: each accessor read with each
    of its read operations failing in turn raises; afterwards every accessor still gives the true value"""
    if not m.is_3d:
        return
    rng = np.random.default_rng(seed)
    i = int(rng.integers(0, m.n_il)); x = int(rng.integers(0, m.n_xl)); z = int(rng.integers(0, m.n_s))
    t = int(rng.integers(0, m.tracecount))
    ops = [
        ("iline", lambda e: e.iline[int(m.ilines[i])], lambda: m.cube[i, :m.n_xl, :m.n_s], False),
        ("xline", lambda e: e.xline[int(m.xlines[x])], lambda: m.cube[:m.n_il, x, :m.n_s], False),
        ("depth_slice", lambda e: e.depth_slice[z], lambda: m.cube[:m.n_il, :m.n_xl, z], False),
        ("trace", lambda e: e.trace[t], lambda: m.trace(t), False),
    ]
    if m.structured:
        il0, xl0 = int(m.ilines[0]), int(m.xlines[0])
        dil, dxl = int(m.ilines[1] - m.ilines[0]), int(m.xlines[1] - m.xlines[0])
        ops.append(("subvolume", lambda e: e.subvolume[il0:il0 + 2 * dil:dil, xl0:xl0 + 3 * dxl:dxl, :],
                    lambda: m.cube[0:2, 0:3, :m.n_s], False))
    if m.offsets:
        ops.append(("header", lambda e: e.header[t], lambda: m.header(t), True))

    def good(res, exp, is_header):
        if is_header:
            return {int(a): int(b) for a, b in res.items()} == exp
        return same(res, exp)

    spy = SpyFile(m.path, data=m.raw)
    emu = SegyioEmulator(spy)
    for name, run, exp, is_header in ops:
        for other in (emu.iline, emu.xline, emu.depth_slice, emu.trace, emu.header, emu.subvolume, emu):
            other.loader.clear_cache()
            other.clear_variant_headers()
            other.mask = None
        spy.reset()
        try:
            res = run(emu)
        except Exception as e:
            check(False, "%s emulator %s raised %r" % (m.path, name, e))
            continue
        check(good(res, exp(), is_header), "%s emulator %s: wrong value" % (m.path, name))
        n_ops = spy.n_ops
        for k in sorted(set([0, n_ops // 2, n_ops - 1])) if n_ops else []:
            for mode in ('raise', 'short', 'empty'):
                for other in (emu.iline, emu.xline, emu.depth_slice, emu.trace, emu.header, emu.subvolume, emu):
                    other.loader.clear_cache()
                    other.clear_variant_headers()
                    other.mask = None
                spy.reset({k: mode})
                try:
                    res = run(emu)
                    check(False, "%s emulator %s: read operation %d was %s but a value came back%s" % (
                        m.path, name, k, mode, "" if good(res, exp(), is_header) else " AND IT IS WRONG"))
                except Exception:
                    check(True, "")
                spy.reset()
                for name2, run2, exp2, is_header2 in ops:
                    try:
                        check(good(run2(emu), exp2(), is_header2),
                              "%s emulator %s wrong after a failed %s" % (m.path, name2, name))
                    except Exception as e:
                        check(False, "%s emulator %s raised after a failed %s: %r" % (m.path, name2, name, e))


def build_files(tmp):
    """(path, weight) - the fixtures of the repository plus files big enough to have several chunks per line"""
    fixtures = ['small_8bit.sgz', 'small_4bit.sgz', 'small_2bit.sgz', 'small_1bit.sgz', 'small_05bit.sgz',
                'small_025bit.sgz', 'small_8bit-8x8.sgz', 'small_2bit-64x64.sgz', 'small-2d.sgz',
                'small-irregular.sgz', 'small_hole.sgz', 'small_v0.0.1.sgz', 'small-dec_8bit.sgz']
    files = [os.path.join('test_data', f) for f in fixtures]
    big = [
        write_numpy_sgz(os.path.join(tmp, 'g_4bit_13x22x700.sgz'), (13, 22, 700), 4, seed=1),
        write_numpy_sgz(os.path.join(tmp, 'g_8bit_21x9x90.sgz'), (21, 9, 90), 8, seed=2),
        write_numpy_sgz(os.path.join(tmp, 'g_2bit_10x11x1500.sgz'), (10, 11, 1500), 2, seed=3),
        write_numpy_sgz(os.path.join(tmp, 'g_4bit_8x8x128_20x17x300.sgz'), (20, 17, 300), 4, (8, 8, -1), seed=4),
        write_numpy_sgz(os.path.join(tmp, 'g_2bit_64x64x4_70x66x30.sgz'), (70, 66, 30), 2, (64, 64, 4), seed=5),
        write_numpy_sgz(os.path.join(tmp, 'g_half_bit_9x9x400.sgz'), (9, 9, 400), -2, seed=6),
    ]
    return files, big


# --------------------------------------------------------------------------------------------------------------
# Focus of this demonstration: every kind of local handle a caller may pass, complete and cut short
# --------------------------------------------------------------------------------------------------------------
class RawReadOnly(io.RawIOBase):
    """A raw stream which implements read() only (its inherited readinto() is a placeholder)"""
    def __init__(self, path, data):
        super().__init__()
        self.name = path
        self._data, self._pos = data, 0
        self.reads = 0

    def readable(self):
        return True

    def seekable(self):
        return True

    def seek(self, offset, whence=0):
        self._pos = offset if whence == 0 else (self._pos + offset if whence == 1 else len(self._data) + offset)
        return self._pos

    def tell(self):
        return self._pos

    def read(self, n=-1):
        self.reads += 1
        if n is None or n < 0:
            n = len(self._data) - self._pos
        part = self._data[self._pos:self._pos + n]
        self._pos += len(part)
        return part


def handle_kinds(path, data):
    def named_bytesio():
        b = io.BytesIO(data)
        b.name = path
        return b
    return [
        ("buffered", lambda: open(path, 'rb')),
        ("unbuffered", lambda: open(path, 'rb', buffering=0)),
        ("small-buffer", lambda: open(path, 'rb', buffering=512)),
        ("bytesio", named_bytesio),
        ("raw-read-only", lambda: RawReadOnly(path, data)),
        ("spy+readinto", lambda: SpyFile(path, True, data)),
        ("spy-readinto", lambda: SpyFile(path, False, data)),
    ]


def suite_handle_kinds(m, seed, tmp):
    rng = np.random.default_rng(seed)
    calls = sample_calls(m, rng, n_each=1, light=True)
    size = len(m.raw)
    cuts = [None, size - 1, m.data_start + m.cdb * BLOCK - 1, m.data_start + (m.cdb * BLOCK) // 2 + 5,
            m.data_start + BLOCK, m.data_start + 1]
    path = os.path.join(tmp, "kinds_" + os.path.basename(m.path))
    for cut in cuts:
        data = m.raw if cut is None else m.raw[:cut]
        with open(path, 'wb') as f:
            f.write(data)
        for kind, make in handle_kinds(path, data):
            for kwargs in ({}, {'preload': True}, {'chunk_cache_size': 1}):
                try:
                    handle = make()
                    r = SgzReader(handle, **kwargs)
                except Exception as e:
                    check(cut is not None, "%s %s %r: cannot open the complete file: %r" % (m.path, kind, kwargs, e))
                    continue
                for call in calls:
                    state, res = run_call(call, r)
                    if cut is None:
                        check(state == 'ok' and call.verify(res, m),
                              "%s %s %r %s: %s" % (m.path, kind, kwargs, call.label, state))
                    elif state == 'ok':
                        check(call.verify(res, m), "%s cut to %d, %s %r %s: a value the complete file does not give"
                              % (m.path, cut, kind, kwargs, call.label))
                r.close()
    os.remove(path)


def suite_readinto_none(m, seed):
    """A handle whose readinto() reports None (as a non-blocking raw stream does): the call raises or is right"""
    rng = np.random.default_rng(seed)
    for call in sample_calls(m, rng, n_each=1, light=True):
        spy = SpyFile(m.path, True, m.raw)
        r = SgzReader(spy)
        spy.reset({0: 'none', 1: 'none'})
        state, res = run_call(call, r)
        check(state == 'raised' or call.verify(res, m), "%s %s: readinto -> None gave a wrong value" % (m.path, call.label))
        spy.reset()
        state, res = run_call(call, r)
        check(state == 'ok' and call.verify(res, m), "%s %s: wrong after readinto -> None" % (m.path, call.label))
        r.loader.clear_cache()


def main():
    tmp = tempfile.mkdtemp()
    t0 = time.time()
    try:
        files, big = build_files(tmp)
        models = [Model(p) for p in files + big]
        for n, m in enumerate(models):
            t = time.time()
            heavy = m.tile_layout
            suite_values_and_blocks(m, 100 + n)
            suite_values_and_blocks(m, 200 + n, with_readinto=False)
            suite_handle_kinds(m, 250 + n, tmp)
            suite_readinto_none(m, 270 + n)
            suite_preload(m, 300 + n)
            suite_local_faults(m, 400 + n)
            suite_local_faults(m, 450 + n, with_readinto=False, modes=('raise', 'short'))
            suite_blob(m, 500 + n, orders=(None, 'reverse'))
            suite_blob_faults(m, 600 + n, orders=(None,))
            suite_histories(m, 700 + n, steps=40 if heavy else 60)
            suite_truncated(m, 800 + n, tmp, max_lengths=30 if heavy else 60)
            suite_threads_separate_readers(m, 900 + n)
            suite_emulator_faults(m, 1000 + n)
            print("%-34s %6.1fs  checks so far %d, failures %d" % (
                os.path.basename(m.path), time.time() - t, CHECKS[0], len(FAILURES)))
    finally:
        shutil.rmtree(tmp, ignore_errors=True)
    print("%d checks, %d failures, %.1fs" % (CHECKS[0], len(FAILURES), time.time() - t0))
    sys.exit(1 if FAILURES else 0)


if __name__ == '__main__':
    main()
