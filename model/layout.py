"""Executable reference model of the SGZ layout, written from docs/file-specification.md and the
README's description of the block layouts.  It shares no code with seismic_zfp: given the raw header
bytes of a file it answers, for a read call, which byte ranges of the file the call *needs*.

Needed sets are returned as a list of half-open byte ranges [(lo, hi), ...] plus the set of 4 KiB
data blocks they cover.
"""
import struct

BLK = 4096


def _u32(b, o):
    return struct.unpack_from('<I', b, o)[0]


def _i32(b, o):
    return struct.unpack_from('<i', b, o)[0]


def _pad(n, m):
    return n if n % m == 0 else m * (n // m + 1)


class Layout:
    def __init__(self, header):
        h = bytes(header)
        self.n_header_blocks = _u32(h, 0)
        self.n_s = _u32(h, 4)
        self.n_xl = _u32(h, 8)
        self.n_il = _u32(h, 12)
        bpv = _i32(h, 40)
        self.rate = (1.0 / -bpv) if bpv < 0 else float(bpv)
        bs = (_u32(h, 44), _u32(h, 48), _u32(h, 52))
        if (bs[0] == 0 or bs[1] == 0) and bs[2] == 0:        # files older than the blockshape fields
            bs = (4, 4, int(2048 // self.rate))
        self.bs = bs
        self.is_2d = bs[0] == 1
        self.data_blocks = _u32(h, 56)
        self.hdr_len = _u32(h, 60)
        self.n_arrays = _u32(h, 64)
        version = _u32(h, 72)
        v021 = 1024 * 2048 * 0 + 2048 * 2 + 2 * 1 + 1
        if version > v021:
            self.tracecount = _u32(h, 68)
            self.hdr_stride = 512 + 512 * ((self.hdr_len - 1) // 512) if self.hdr_len else 0
        else:
            self.tracecount = self.n_il * self.n_xl
            self.hdr_stride = self.hdr_len
        if self.is_2d:
            self.pad = (1, _pad(self.tracecount, bs[1]), _pad(self.n_s, bs[2]))
        else:
            self.pad = (_pad(self.n_il, bs[0]), _pad(self.n_xl, bs[1]), _pad(self.n_s, bs[2]))
        self.nb = tuple(p // b for p, b in zip(self.pad, bs))
        if self.data_blocks == 0:
            self.data_blocks = self.nb[0] * self.nb[1] * self.nb[2]
        self.data_start = BLK * self.n_header_blocks
        self.data_end = self.data_start + BLK * self.data_blocks
        self.structured = (not self.is_2d) and self.tracecount == self.n_il * self.n_xl
        # trace-header table: 89 rows of (start byte, constant, duplicated start byte)
        self.field_array = {}       # field -> index of the stored array that holds it
        rows = sorted({(_i32(h, 980 + 12 * r), _i32(h, 984 + 12 * r), _i32(h, 988 + 12 * r)) for r in range(89)})
        order = []
        seen = set()
        for code, const, dup in rows:
            if const != 0 or dup == 0:
                seen.add(code)                 # invariant field: value lives in the header
            elif dup in seen:                  # duplicate of a previous field
                if dup in self.field_array:
                    self.field_array[code] = self.field_array[dup]
                seen.add(code)
            else:                              # a stored array, in table order
                self.field_array[code] = len(order)
                order.append(code)
                seen.add(code)
        self.stored = order
        if self.bs[0] == 4 and self.bs[1] == 4:
            self.layout = '4x4'
        elif self.is_2d:
            self.layout = '2d-4' if self.bs[1] == 4 else '2d-general'
        elif self.bs[2] == 4:
            self.layout = 'zslice'
        else:
            self.layout = 'general'

    # -- geometry ----------------------------------------------------------------------------
    def block_index(self, ib, xb, zb):
        return (ib * self.nb[1] + xb) * self.nb[2] + zb

    def block_range(self, k):
        lo = self.data_start + BLK * k
        return (lo, lo + BLK)

    def box_blocks(self, il, xl, z):
        """Blocks that the half-open index box il=(a,b), xl=(c,d), z=(e,f) intersects."""
        out = set()
        b0, b1, b2 = self.bs
        for ib in range(il[0] // b0, (il[1] - 1) // b0 + 1):
            for xb in range(xl[0] // b1, (xl[1] - 1) // b1 + 1):
                for zb in range(z[0] // b2, (z[1] - 1) // b2 + 1):
                    out.add(self.block_index(ib, xb, zb))
        return out

    def array_range(self, j, full=True, index=None):
        lo = self.data_end + j * self.hdr_stride
        if full:
            return (lo, lo + self.hdr_len)
        return (lo + 4 * index, lo + 4 * index + 4)

    def header_range(self):
        return (0, self.data_start)

    def trace_column(self, index):
        """(il, xl) ordinals of trace `index` in the padded-less grid."""
        return index // self.n_xl, index % self.n_xl

    # -- needed sets -------------------------------------------------------------------------
    def needed(self, call, mask_allowed=False):
        """Returns (blocks:set, footer_ranges:list, exact_footer:bool) for a call given as
        [name, args...]; blocks are data-section block indices."""
        name, a = call[0], call[1:]
        none = (set(), [])
        if self.is_2d:
            return self._needed_2d(name, a)
        n_il, n_xl, n_s = self.n_il, self.n_xl, self.n_s
        full_z = (0, n_s)
        if name == 'read_inline':
            i = a[0]
            if self.layout == '4x4':
                return (self.box_blocks((4 * (i // 4), 4 * (i // 4) + 4), (0, self.pad[1]), (0, self.pad[2])), [])
            return (self.box_blocks((i, i + 1), (0, n_xl), full_z), [])
        if name == 'read_crossline':
            x = a[0]
            if self.layout == '4x4':
                return (self.box_blocks((0, self.pad[0]), (4 * (x // 4), 4 * (x // 4) + 4), (0, self.pad[2])), [])
            return (self.box_blocks((0, n_il), (x, x + 1), full_z), [])
        if name == 'read_zslice':
            z = a[0]
            if self.layout in ('4x4', 'zslice'):
                return (self.box_blocks((0, self.pad[0]), (0, self.pad[1]), (z, z + 1)), [])
            return (self.box_blocks((0, n_il), (0, n_xl), (z, z + 1)), [])
        if name == 'read_subvolume':
            return (self.box_blocks((a[0], a[1]), (a[2], a[3]), (a[4], a[5])), [])
        if name == 'read_volume':
            return (self.box_blocks((0, n_il), (0, n_xl), full_z), [])
        if name == 'trace_chunk':
            # (il, xl, z0, z1): the chunk (block column) holding the trace, for the sample window
            il, xl, z0, z1 = a
            b0, b1 = self.bs[0], self.bs[1]
            return (self.box_blocks((b0 * (il // b0), b0 * (il // b0) + b0), (b1 * (xl // b1), b1 * (xl // b1) + b1),
                                    (z0, z1)), [])
        if name == 'header4':
            return (set(), [self.array_range(j, full=False, index=a[0]) for j in range(len(self.stored))])
        if name == 'header_arrays':
            return (set(), [self.array_range(j) for j in range(len(self.stored))])
        if name == 'field_array':
            f = a[0]
            if f in self.field_array:
                return (set(), [self.array_range(self.field_array[f])])
            return none
        if name == 'mask':
            if 189 in self.field_array:
                return (set(), [self.array_range(self.field_array[189])])
            return none
        return none

    def _needed_2d(self, name, a):
        b1, b2 = self.bs[1], self.bs[2]
        if name == 'trace2d':
            t = a[0]
            return (self.box_blocks((0, 1), (b1 * (t // b1), b1 * (t // b1) + b1), (0, self.pad[2] if b1 == 4 else self.n_s)), [])
        if name == 'read_subplane':
            return (self.box_blocks((0, 1), (a[0], a[1]), (a[2], a[3])), [])
        if name == 'header_arrays':
            return (set(), [self.array_range(j) for j in range(len(self.stored))])
        if name == 'field_array':
            f = a[0]
            if f in self.field_array:
                return (set(), [self.array_range(self.field_array[f])])
            return (set(), [])
        return (set(), [])
