"""Deterministic thread / storage simulator for seismic-zfp (see DESIGN.md section 2)."""
