"""Baton-passing scheduler, simulated threads, queues and thread pools.

Exactly one simulated thread runs at any instant.  A thread that is about to perform an
intercepted operation calls ``Scheduler.yield_point(kind, pred)``: it publishes the predicate
under which the operation may proceed, the scheduler computes the runnable set, asks the
*chooser* (seeded PRNG policy, or a recorded trace) who goes next, and hands over the baton.
The operation itself then executes atomically (until that thread's next yield point).

Nothing here reads a real clock or an unseeded PRNG.
"""
import hashlib
import random
import threading as _threading
import _thread

_RealThread = _threading.Thread          # captured before any patching
_real_thread_start = _threading.Thread.start


class SimAbort(BaseException):
    """Base of the exceptions the simulator throws *into* simulated code (never caught by
    ``except Exception`` in the library)."""


class SimKilled(SimAbort):
    pass


class SimDeadlock(SimAbort):
    pass


class SimStepCap(SimAbort):
    pass


class HarnessError(Exception):
    """The harness cannot simulate what the code did (reported as exit 3, never a VIOLATION)."""


# --------------------------------------------------------------------------------------------
# choice stream
# --------------------------------------------------------------------------------------------

def stream(seed, run, name):
    """Independent PRNG stream; string seeding is SHA-512 based, independent of PYTHONHASHSEED."""
    return random.Random(f"{seed}:{run}:{name}")


class Chooser:
    name = 'base'

    def choose(self, sched, runnable, cur):
        raise NotImplementedError

    def thread_created(self, sched, t):
        pass


def default_choice(runnable, cur):
    """The strictly sequential reference schedule: always run the most downstream runnable thread
    (highest id = most recently created: writer before compressor before producer; a pool worker
    before its submitter).  Every item then travels the whole pipeline before the next one is
    produced, and every join finds its queue already drained."""
    return runnable[-1]


class SeqChooser(Chooser):
    """The reference schedule.  Timers behave as in a discrete-event simulation: a timed wait expires
    only when no thread can take a real step (time passes only when nothing else can happen)."""
    name = 'seq'

    def choose(self, sched, runnable, cur):
        real = [t for t in runnable if t.pred is None or t.pred()]
        return default_choice(real or runnable, cur)


class RandomChooser(Chooser):
    name = 'random'

    def __init__(self, rng):
        self.rng = rng

    def choose(self, sched, runnable, cur):
        if len(runnable) == 1:
            return runnable[0]
        return runnable[self.rng.randrange(len(runnable))]


class StickyChooser(Chooser):
    def __init__(self, rng, p):
        self.rng = rng
        self.p = p
        self.name = f'sticky{p}'

    def choose(self, sched, runnable, cur):
        if len(runnable) == 1:
            return runnable[0]
        if cur in runnable and self.rng.random() < self.p:
            return cur
        others = [t for t in runnable if t is not cur]
        return others[self.rng.randrange(len(others))]


class PCTChooser(Chooser):
    """PCT (Burckhardt et al.): random distinct priorities, d-1 priority change points."""

    def __init__(self, rng, d, est_steps):
        self.rng = rng
        self.d = d
        self.name = f'pct{d}'
        self.prio = {}
        self.low = 0
        self.change = sorted(rng.randrange(max(1, est_steps)) for _ in range(max(0, d - 1)))
        self.n = 0

    def thread_created(self, sched, t):
        self.prio[t.id] = 1000 + self.rng.random()

    def choose(self, sched, runnable, cur):
        self.n += 1
        for t in runnable:
            if t.id not in self.prio:
                self.prio[t.id] = 1000 + self.rng.random()
        best = max(runnable, key=lambda t: (self.prio[t.id], -t.id))
        while self.change and self.change[0] <= self.n:
            self.change.pop(0)
            self.low -= 1
            self.prio[best.id] = self.low
            best = max(runnable, key=lambda t: (self.prio[t.id], -t.id))
        return best


IO_COMPLETIONS = ('b.readall', 'r.read', 'w.write')


class IoSlowChooser(Chooser):
    """Storage is slow relative to computation: a thread whose pending operation is an I/O
    completion runs only when nothing else can (all requests get issued before any completes, queues
    fill up in front of the writer); completions then happen in seeded random order.  With
    probability q a completion is let through early."""

    def __init__(self, rng, q=0.1):
        self.rng = rng
        self.q = q
        self.name = 'ioslow'

    def choose(self, sched, runnable, cur):
        if len(runnable) == 1:
            return runnable[0]
        fast = [t for t in runnable if t.pending not in IO_COMPLETIONS]
        if fast and len(fast) < len(runnable) and self.rng.random() >= self.q:
            return fast[self.rng.randrange(len(fast))]
        return runnable[self.rng.randrange(len(runnable))]


class ReplayChooser(Chooser):
    """Consumes a recorded list of thread ids (None = default choice).  When the recorded id is
    not runnable (because the history was minimised) falls back to the default choice."""
    name = 'replay'

    def __init__(self, choices):
        self.choices = list(choices)
        self.i = 0
        self.misses = 0

    def choose(self, sched, runnable, cur):
        want = self.choices[self.i] if self.i < len(self.choices) else None
        self.i += 1
        if want is not None:
            for t in runnable:
                if t.id == want:
                    return t
            self.misses += 1
        # unrecorded / minimised-away position: stay on the current thread, else most downstream
        if cur is not None and cur in runnable:
            return cur
        return runnable[-1]


def make_chooser(policy, rng, est_steps=60):
    if policy == 'seq':
        return SeqChooser()
    if policy == 'random':
        return RandomChooser(rng)
    if policy.startswith('sticky'):
        return StickyChooser(rng, float(policy[6:]))
    if policy.startswith('pct'):
        return PCTChooser(rng, int(policy[3:]), est_steps)
    if policy == 'ioslow':
        return IoSlowChooser(rng)
    raise ValueError(policy)


POLICIES = ['random', 'random', 'sticky0.5', 'sticky0.9', 'pct1', 'pct2', 'pct3', 'ioslow', 'ioslow']


# --------------------------------------------------------------------------------------------
# scheduler
# --------------------------------------------------------------------------------------------

# operations that only look at shared state: a thread spinning on them must not starve the threads it
# is watching, whatever the policy
LONG_TIMEOUT_S = 5.0


OBSERVATIONS = frozenset(['q.qsize', 'q.empty', 'q.full', 'e.is_set', 'l.locked', 'f.done', 't.is_alive'])


class _TState:
    __slots__ = ('id', 'name', 'sem', 'pred', 'pending', 'state', 'real', 'deadline', 'timed_out',
                 'kill', 'ident', 'daemon', 'is_main', 'seen_progress', 'last_obs', 'since_op', 'long_wait', 'stall')

    def __init__(self, tid, name):
        self.id = tid
        self.name = name
        self.sem = _threading.Semaphore(0)
        self.pred = None
        self.pending = None
        self.state = 'ready'
        self.real = None
        self.deadline = None
        self.timed_out = False
        self.kill = False
        self.ident = None
        self.daemon = False
        self.is_main = False
        self.seen_progress = 0
        self.last_obs = -1
        self.since_op = 99
        self.long_wait = False
        self.stall = None

    def __repr__(self):
        return f'<T{self.id} {self.name} {self.state} {self.pending}>'


_current_sched = None     # the scheduler of the run in progress in this process (or None)


def current():
    return _current_sched


class Scheduler:
    def __init__(self, chooser, step_cap=5000, main_name='main'):
        self.chooser = chooser
        self.step_cap = step_cap
        self.threads = []
        self.steps = 0
        self.trace = []          # chosen thread id per decision
        self.nrunnable = []      # size of runnable set per decision
        self.events = []         # (step, thread name, kind, info)
        self.clock = 0.0
        self.abort = None
        self.aborted = False
        self.killing = False
        self.uncaught = []       # (thread name, exc type name, message)
        self.counters = {}
        self.name_counts = {}
        self.max_live = 1
        self.harness_error = None
        self.progress = 0
        self.preempt_p = 0.0     # probability that a source line of the library is a decision point
        self.preempt_key = None  # (seed, run): per-thread PRNG streams for the line-level pre-emption
        self.preempt_rngs = {}
        self.preempt_post = None  # probability for the first source lines after an intercepted operation
        self.pre_steps = 0
        self.pre_cap = 400000
        self.idle_steps = 0
        self.lib_prefix = None
        self.on_abort = None
        self.pollers = set()     # threads whose last timed wait expired and that have only done
        #                          non-blocking checks since (a polling loop between two polls)
        main = _TState(0, main_name)
        main.state = 'running'
        main.is_main = True
        main.ident = _thread.get_ident()
        self.main = main
        self.cur = main
        self.threads.append(main)
        self.chooser.thread_created(self, main)

    # -- bookkeeping -------------------------------------------------------------------------
    def count(self, key, n=1):
        self.counters[key] = self.counters.get(key, 0) + n

    def log(self, kind, info=()):
        self.events.append((self.steps, self.cur.name, kind, info))

    def digest(self):
        h = hashlib.sha1()
        for e in self.events:
            h.update(repr(e).encode())
        h.update(repr(self.trace).encode())
        return h.hexdigest()

    def trace_digest(self):
        h = hashlib.sha1()
        for e in self.events:
            h.update(repr((e[1], e[2])).encode())
        return h.hexdigest()

    def new_name(self, role):
        n = self.name_counts.get(role, 0) + 1
        self.name_counts[role] = n
        return f'{role}-{n}'

    # -- the decision point ------------------------------------------------------------------
    def _check_caller(self):
        if _thread.get_ident() != self.cur.ident:
            self.harness_error = 'uncontrolled thread touched a simulated object'
            raise HarnessError(self.harness_error)

    def yield_point(self, kind, pred=None, info=(), timeout=None, advance=0.0, stall=None):
        """Called by the running thread before an intercepted operation.  Returns True when the
        operation may proceed (pred holds), False when a virtual-time timeout expired first."""
        self._check_caller()
        me = self.cur
        if me.kill or (self.killing and not me.is_main):
            raise SimKilled()
        if self.aborted:
            if me.is_main:
                return True           # unwinding after an abort: run finalisers inline
            raise SimKilled()
        me.pending = kind
        me.pred = pred
        me.timed_out = False
        me.seen_progress = self.progress
        me.deadline = (self.clock + timeout) if timeout is not None else None
        # a long time-out is a failure detector, not a polling interval: it expires only when nothing else can
        # happen (or while an injected stall holds a request back), never merely because other threads computed
        me.long_wait = timeout is not None and timeout >= LONG_TIMEOUT_S
        me.stall = stall
        self._switch(me)
        me.pred = None
        me.pending = None
        me.deadline = None
        me.stall = None
        if kind != 'pre':
            me.since_op = 0
        self.clock += advance
        self.log(kind, info)
        return not me.timed_out

    def _runnable(self):
        """Threads whose pending operation may proceed now.  A thread in a timed wait is always a
        candidate: how much real time the others' computation takes is unconstrained, so its timer
        may fire at any decision point (it then proceeds as 'timed out')."""
        out = []
        deferred = []
        for t in self.threads:
            if t.state == 'done':
                continue
            p = t.pred
            if t.stall is not None and not t.stall['released']:
                # an injected stall: the operation completes only after a time-out has expired somewhere (what
                # a hung request does to code that has time-outs), or when nothing else can happen at all
                if self.counters.get('timeout_fired', 0) > t.stall['fired0']:
                    t.stall['released'] = True
                    out.append(t)
                continue
            if p is None and t.pending in OBSERVATIONS and t.last_obs == self.progress:
                deferred.append(t)        # looked already and nothing has happened since
            elif p is None or p():
                out.append(t)
            elif t.deadline is not None and self.progress > t.seen_progress and not t.long_wait:
                # fairness: between two expiries of the same thread's timers somebody has taken a
                # real step (not a timer expiry, not a poller's flag check), so polling loops cannot
                # starve the threads they poll, under any policy
                out.append(t)
        if not out:
            waiting = [t for t in self.threads if t.state != 'done' and t.deadline is not None]
            if waiting:
                out.append(min(waiting, key=lambda t: (t.deadline, t.id)))
        if not out:
            out = deferred
        if not out:
            # nothing can happen and no timer is pending: a stalled request completes after all
            for t in self.threads:
                if t.state != 'done' and t.stall is not None and not t.stall['released']:
                    t.stall['released'] = True
                    out.append(t)
        return out

    def _pick(self, me):
        """Returns the thread to run next, or raises/arranges an abort."""
        runnable = self._runnable()
        if not runnable:
            return self._deliver_abort(me, SimDeadlock)
        live = sum(1 for t in self.threads if t.state != 'done')
        if live > self.max_live:
            self.max_live = live
        chosen = self.chooser.choose(self, runnable, me if (me is not None and me.state != 'done') else None)
        # three budgets: real operations (the step cap proper: bounded-step termination of the
        # operation under test), line-level pre-emption points, and idle steps (timer expiries, a
        # poller's flag checks, observations) which the fairness rules bound per real step and which
        # can only run away when nothing makes progress any more
        expiry = chosen.deadline is not None and chosen.pred is not None and not chosen.pred()
        observation = chosen.pred is None and chosen.pending in OBSERVATIONS
        poll_check = chosen.id in self.pollers and chosen.pred is None
        if expiry or observation or poll_check:
            self.idle_steps += 1
            if self.idle_steps > 60 * self.step_cap + 5000:
                return self._deliver_abort(me, SimStepCap)
        elif chosen.pending == 'pre':
            self.pre_steps += 1
            if self.pre_steps > self.pre_cap:
                return self._deliver_abort(me, SimStepCap)
        else:
            self.steps += 1
            if self.steps > self.step_cap:
                return self._deliver_abort(me, SimStepCap)
        if expiry:
            self.clock = max(self.clock, chosen.deadline)
            chosen.timed_out = True
            self.count('timeout_fired')
            self.pollers.add(chosen.id)
        elif observation:
            chosen.last_obs = self.progress      # looking is not progress
        elif poll_check:
            # a poller between two polls: costs nothing, lets nobody else's timer fire
            pass
        else:
            self.pollers.discard(chosen.id)
            self.progress += 1
        self.trace.append(chosen.id)
        self.nrunnable.append(len(runnable))
        return chosen

    def _deliver_abort(self, me, exc):
        if not self.aborted and self.on_abort is not None:
            self.on_abort()           # the instant at which a real process would hang (state of the disk then)
        self.aborted = True
        self.abort = exc
        return self.main

    def _switch(self, me):
        chosen = self._pick(me)
        if chosen is not me:
            self.cur = chosen
            chosen.sem.release()
            me.sem.acquire()
            # we hold the baton again
        if me.kill:
            raise SimKilled()
        if me.is_main and self.abort is not None:
            exc = self.abort
            self.abort = None
            raise exc()

    def _thread_exit(self, me):
        me.state = 'done'
        me.pred = None
        if self.killing or me.kill:
            return
        chosen = self._pick(me)
        self.cur = chosen
        chosen.sem.release()

    # -- line-level pre-emption ---------------------------------------------------------------
    def enable_preemption(self, p, key, lib_prefix, post=None):
        """Every source line executed inside the library (files under lib_prefix) by a simulated
        thread becomes a decision point with probability p.  The draw comes from a PRNG stream per
        thread (keyed by the thread's name), so which lines pre-empt is a function of that thread's
        own execution path and stays put while a schedule is being minimised."""
        self.preempt_p = p
        self.preempt_key = key
        self.lib_prefix = lib_prefix
        # 'post' mode: the (up to three) library lines that follow an intercepted operation pre-empt with
        # this higher probability: the window between a synchronisation operation and the statement that
        # acts on its result (get -> number, check -> act) is where two-line races live
        self.preempt_post = post

    def tracer(self, frame, event, arg):
        if event == 'call' and frame.f_code.co_filename.startswith(self.lib_prefix):
            return self._line_tracer
        return None

    def _line_tracer(self, frame, event, arg):
        if event == 'line' and _current_sched is self and not self.killing and not self.aborted:
            me = self.cur
            if _thread.get_ident() == me.ident:
                rng = self.preempt_rngs.get(me.name)
                if rng is None:
                    rng = self.preempt_rngs[me.name] = random.Random(f'{self.preempt_key}:pre:{me.name}')
                p = self.preempt_p
                if self.preempt_post is not None:
                    me.since_op += 1
                    if me.since_op <= 3:
                        p = self.preempt_post
                if rng.random() < p:
                    self.count('preemptions')
                    self.yield_point('pre')
        return self._line_tracer

    # -- end of run --------------------------------------------------------------------------
    def drain(self):
        """Called by main after the operation under test returned: run every other thread until
        all are parked on a false predicate (quiescence).  Returns number of steps taken."""
        if self.aborted:
            return 0
        before = self.steps
        main = self.main

        def others_quiet():
            for t in self.threads:
                if t is main or t.state == 'done':
                    continue
                if t.pred is None or t.pred() or t.deadline is not None:
                    return False          # can still act (a pending timer will fire)
            return True
        cap = self.step_cap
        self.step_cap = min(cap, self.steps + 400)       # a perpetual poller never becomes quiet
        try:
            self.yield_point('drain', pred=others_quiet)
        except (SimDeadlock, SimStepCap):
            self.aborted = False
            self.abort = None
        finally:
            self.step_cap = cap
        return self.steps - before

    def kill_all(self):
        """Unwind every parked simulated thread (SimKilled is raised from its pending yield point)."""
        self.killing = True
        for t in self.threads:
            if t.is_main or t.real is None:
                continue
            if t.state != 'done' or t.real.is_alive():
                t.kill = True
                self.cur = t
                t.sem.release()
                t.real.join(10)
                if t.real.is_alive():
                    self.harness_error = f'simulated thread {t.name} did not unwind'
        self.cur = self.main
        if self.harness_error:
            raise HarnessError(self.harness_error)


def begin(chooser, step_cap=5000):
    global _current_sched
    if _current_sched is not None:
        raise HarnessError('nested simulation run')
    _current_sched = Scheduler(chooser, step_cap)
    return _current_sched


def end():
    global _current_sched
    s = _current_sched
    _current_sched = None
    if s is not None:
        s.kill_all()
    return s


# --------------------------------------------------------------------------------------------
# simulated threading.Thread
# --------------------------------------------------------------------------------------------

class SimThread:
    """Drop-in for threading.Thread inside a simulation run: a real OS thread that only runs while
    it holds the baton."""

    def __init__(self, group=None, target=None, name=None, args=(), kwargs=None, *, daemon=None):
        self._target = target
        self._args = args
        self._kwargs = kwargs or {}
        self.daemon = bool(daemon) if daemon is not None else False
        self._state = None
        self._started = False
        self._role = getattr(target, '__name__', None) or 'thread'
        self.name = name or self._role

    def run(self):
        if self._target is not None:
            self._target(*self._args, **self._kwargs)

    def start(self):
        s = _current_sched
        if s is None:
            raise HarnessError('SimThread.start outside a simulation run')
        if self._started:
            raise RuntimeError("threads can only be started once")
        s.yield_point('t.start', info=(self._role,))
        self._started = True
        st = _TState(len(s.threads), s.new_name(self._role))
        st.daemon = self.daemon
        self._state = st
        self.name = st.name
        real = _RealThread(target=self._bootstrap, args=(s, st), daemon=True)
        real._sim_ok = True
        st.real = real
        s.threads.append(st)
        s.chooser.thread_created(s, st)
        s.count('threads_started')
        _real_thread_start(real)

    def _bootstrap(self, s, st):
        st.ident = _thread.get_ident()
        st.sem.acquire()
        if st.kill:
            st.state = 'done'
            return
        st.state = 'running'
        if s.preempt_p > 0:
            import sys as _sys
            _sys.settrace(s.tracer)
        try:
            self.run()
        except SimKilled:
            pass
        except HarnessError as e:
            s.harness_error = str(e)
        except BaseException as e:       # what threading.excepthook would have printed
            s.uncaught.append((st.name, type(e).__name__, str(e)[:160]))
            s.events.append((s.steps, st.name, 't.died', (type(e).__name__,)))
        finally:
            s._thread_exit(st)

    def join(self, timeout=None):
        s = _current_sched
        st = self._state
        if st is None:
            raise RuntimeError("cannot join thread before it is started")
        s.yield_point('t.join', pred=lambda: st.state == 'done', timeout=timeout, info=(st.name,))

    def _alive(self):
        return self._state is not None and self._state.state != 'done'

    def is_alive(self):
        s = _current_sched
        if s is not None and not s.killing and not s.aborted:
            s.yield_point('t.is_alive')
        return self._alive()

    def _unused(self):
        return self._state is not None and self._state.state != 'done'

    def setDaemon(self, v):
        self.daemon = v

    @property
    def ident(self):
        return self._state.ident if self._state else None


# --------------------------------------------------------------------------------------------
# simulated queue.Queue
# --------------------------------------------------------------------------------------------

import queue as _queue


class SimQueue:
    """FIFO queue whose blocking conditions are evaluated by the scheduler."""
    cap_override = None      # per-run knob (class attribute set by the harness)

    def __init__(self, maxsize=0):
        s = _current_sched
        if s is None:
            raise HarnessError('SimQueue outside a simulation run')
        self.requested_maxsize = maxsize
        self.maxsize = SimQueue.cap_override if SimQueue.cap_override is not None else maxsize
        self.items = []
        self.unfinished = 0
        self.qname = s.new_name('q')
        self.max_depth = 0
        s.queues = getattr(s, 'queues', [])
        s.queues.append(self)

    def _full(self):
        return 0 < self.maxsize <= len(self.items)

    def qsize(self):
        _current_sched.yield_point('q.qsize', info=(self.qname,))
        return len(self.items)

    def empty(self):
        _current_sched.yield_point('q.empty', info=(self.qname,))
        return not self.items

    def full(self):
        _current_sched.yield_point('q.full', info=(self.qname,))
        return self._full()

    @property
    def unfinished_tasks(self):
        _current_sched.yield_point('q.qsize', info=(self.qname,))
        return self.unfinished

    def put(self, item, block=True, timeout=None):
        s = _current_sched
        if not block:
            s.yield_point('q.put_nowait', info=(self.qname,))
            if self._full():
                raise _queue.Full
        else:
            if self._full():
                s.count('put_blocked_full:' + self.qname)
            ok = s.yield_point('q.put', pred=lambda: not self._full(), info=(self.qname,), timeout=timeout)
            if not ok:
                raise _queue.Full
        self.items.append(item)
        self.unfinished += 1
        if len(self.items) > self.max_depth:
            self.max_depth = len(self.items)

    def put_nowait(self, item):
        return self.put(item, block=False)

    def get(self, block=True, timeout=None):
        s = _current_sched
        if not block:
            s.yield_point('q.get_nowait', info=(self.qname,))
            if not self.items:
                raise _queue.Empty
        else:
            ok = s.yield_point('q.get', pred=lambda: bool(self.items), info=(self.qname,), timeout=timeout)
            if not ok:
                raise _queue.Empty
        return self.items.pop(0)

    def get_nowait(self):
        return self.get(block=False)

    def task_done(self):
        s = _current_sched
        s.yield_point('q.task_done', info=(self.qname,))
        if self.unfinished <= 0:
            raise ValueError('task_done() called too many times')
        self.unfinished -= 1

    def join(self):
        s = _current_sched
        if self.unfinished:
            s.count('join_waited:' + self.qname)
        s.yield_point('q.join', pred=lambda: self.unfinished == 0, info=(self.qname,))


class SimLifoQueue(SimQueue):
    def get(self, block=True, timeout=None):
        s = _current_sched
        if not block:
            s.yield_point('q.get_nowait', info=(self.qname,))
            if not self.items:
                raise _queue.Empty
        else:
            ok = s.yield_point('q.get', pred=lambda: bool(self.items), info=(self.qname,), timeout=timeout)
            if not ok:
                raise _queue.Empty
        return self.items.pop()


class SimSimpleQueue(SimQueue):
    """queue.SimpleQueue: unbounded, no task tracking."""

    def __init__(self):
        super().__init__(0)

    def task_done(self):
        raise AttributeError("'SimpleQueue' object has no attribute 'task_done'")

    def join(self):
        raise AttributeError("'SimpleQueue' object has no attribute 'join'")


# --------------------------------------------------------------------------------------------
# simulated threading primitives (every operation is a decision point; blocking is a predicate
# evaluated by the scheduler, never a real wait while holding the baton)
# --------------------------------------------------------------------------------------------

def _yp(kind, pred=None, info=(), timeout=None):
    """Decision point when a run is active; outside a run (object outlived it) a no-op that reports
    whether the predicate holds."""
    s = _current_sched
    if s is None:
        return pred is None or bool(pred())
    return s.yield_point(kind, pred=pred, info=info, timeout=timeout)


def _to(timeout):
    return None if timeout is None or timeout < 0 else timeout


class SimLock:
    def __init__(self):
        s = _current_sched
        self._owner = None
        self.lname = s.new_name('lock') if s is not None else 'lock'

    def _me(self):
        s = _current_sched
        return s.cur if s is not None else 'outside'

    def acquire(self, blocking=True, timeout=-1):
        if not blocking:
            _yp('l.try', info=(self.lname,))
            if self._owner is not None:
                return False
        else:
            if self._owner is not None and _current_sched is not None:
                _current_sched.count('lock_contended')
            if not _yp('l.acquire', pred=lambda: self._owner is None, info=(self.lname,), timeout=_to(timeout)):
                return False
        self._owner = self._me()
        return True

    def release(self):
        _yp('l.release', info=(self.lname,))
        if self._owner is None:
            raise RuntimeError('release unlocked lock')
        self._owner = None

    def locked(self):
        _yp('l.locked', info=(self.lname,))
        return self._owner is not None

    __enter__ = acquire

    def __exit__(self, et=None, ev=None, tb=None):
        if et is not None and issubclass(et, SimAbort):
            self._owner = None            # unwinding a simulator abort: never mask it
            return False
        self.release()
        return False


class SimRLock(SimLock):
    def __init__(self):
        super().__init__()
        self._count = 0

    def acquire(self, blocking=True, timeout=-1):
        me = self._me()
        if self._owner is me:
            _yp('l.reenter', info=(self.lname,))
            self._count += 1
            return True
        if not blocking:
            _yp('l.try', info=(self.lname,))
            if self._owner is not None:
                return False
        elif not _yp('l.acquire', pred=lambda: self._owner is None, info=(self.lname,), timeout=_to(timeout)):
            return False
        self._owner = me
        self._count = 1
        return True

    def release(self):
        _yp('l.release', info=(self.lname,))
        if self._owner is not self._me():
            raise RuntimeError('cannot release un-acquired lock')
        self._count -= 1
        if self._count == 0:
            self._owner = None

    __enter__ = acquire

    def _release_save(self):
        st = (self._owner, self._count)
        self._owner, self._count = None, 0
        return st

    def _acquire_restore(self, st):
        _yp('l.acquire', pred=lambda: self._owner is None, info=(self.lname,))
        self._owner, self._count = st


class SimCondition:
    def __init__(self, lock=None):
        self._lock = lock if lock is not None else SimRLock()
        self._waiters = []
        self.acquire = self._lock.acquire
        self.release = self._lock.release

    def __enter__(self):
        return self._lock.__enter__()

    def __exit__(self, et=None, ev=None, tb=None):
        if et is not None and issubclass(et, SimAbort):
            self._lock._owner = None
            return False
        return self._lock.__exit__(et, ev, tb)

    def wait(self, timeout=None):
        if self._lock._owner is None:
            raise RuntimeError('cannot wait on un-acquired lock')
        token = [False]
        self._waiters.append(token)
        if hasattr(self._lock, '_release_save'):
            st = self._lock._release_save()
        else:
            st = None
            self._lock._owner = None
        ok = _yp('c.wait', pred=lambda: token[0], timeout=_to(timeout))
        if not ok and token in self._waiters:
            self._waiters.remove(token)
        if st is not None:
            self._lock._acquire_restore(st)
        else:
            _yp('l.acquire', pred=lambda: self._lock._owner is None)
            self._lock._owner = self._lock._me()
        return ok

    def wait_for(self, predicate, timeout=None):
        r = predicate()
        while not r:
            if not self.wait(timeout):
                return predicate()
            r = predicate()
        return r

    def notify(self, n=1):
        if self._lock._owner is None:
            raise RuntimeError('cannot notify on un-acquired lock')
        _yp('c.notify')
        for token in self._waiters[:n]:
            token[0] = True
        del self._waiters[:n]

    def notify_all(self):
        self.notify(len(self._waiters))

    notifyAll = notify_all


class SimSemaphore:
    def __init__(self, value=1):
        if value < 0:
            raise ValueError('semaphore initial value must be >= 0')
        self._value = value

    def acquire(self, blocking=True, timeout=None):
        if not blocking:
            _yp('s.try')
            if self._value <= 0:
                return False
        elif not _yp('s.acquire', pred=lambda: self._value > 0, timeout=_to(timeout)):
            return False
        self._value -= 1
        return True

    __enter__ = acquire

    def release(self, n=1):
        _yp('s.release')
        self._value += n

    def __exit__(self, *exc):
        self.release()
        return False


class SimBoundedSemaphore(SimSemaphore):
    def __init__(self, value=1):
        super().__init__(value)
        self._initial = value

    def release(self, n=1):
        if self._value + n > self._initial:
            raise ValueError('Semaphore released too many times')
        super().release(n)


class SimEvent:
    def __init__(self):
        self._flag = False

    def is_set(self):
        _yp('e.is_set')
        return self._flag

    isSet = is_set

    def set(self):
        _yp('e.set')
        self._flag = True

    def clear(self):
        _yp('e.clear')
        self._flag = False

    def wait(self, timeout=None):
        _yp('e.wait', pred=lambda: self._flag, timeout=_to(timeout))
        return self._flag


class SimBarrier:
    def __init__(self, parties, action=None, timeout=None):
        self._parties = parties
        self._action = action
        self._count = 0
        self._gen = 0

    @property
    def parties(self):
        return self._parties

    @property
    def n_waiting(self):
        return self._count

    def wait(self, timeout=None):
        _yp('b.arrive')
        gen = self._gen
        idx = self._count
        self._count += 1
        if self._count == self._parties:
            if self._action:
                self._action()
            self._count = 0
            self._gen += 1
            return idx
        if not _yp('b.wait', pred=lambda: self._gen != gen, timeout=_to(timeout)):
            raise _threading.BrokenBarrierError
        return idx


# --------------------------------------------------------------------------------------------
# simulated concurrent.futures
# --------------------------------------------------------------------------------------------

import concurrent.futures as _cf
import concurrent.futures.thread      # noqa: F401  (lazy submodules must be imported *before* any
import concurrent.futures.process     # noqa: F401   patching: they subclass threading.Thread)
import multiprocessing.pool           # noqa: F401
import multiprocessing.queues         # noqa: F401


class SimFuture:
    def __init__(self, ex, n):
        self._ex = ex
        self._n = n
        self._done = False
        self._result = None
        self._exc = None
        self._callbacks = []
        self._cancelled = False
        # sets of futures (what wait() returns) must iterate in an order that is a function of the run, not of
        # memory addresses
        name = getattr(ex, 'ename', 'pool-0')
        self._hash = int(name.rsplit('-', 1)[-1]) * 1000003 + n if name.rsplit('-', 1)[-1].isdigit() else n

    def __hash__(self):
        return self._hash

    def __eq__(self, other):
        return self is other

    def done(self):
        s = _current_sched
        if s is not None and not s.killing and not s.aborted:
            s.yield_point('f.done', info=(self._n,))
        return self._done

    def cancelled(self):
        return self._cancelled

    def running(self):
        return False

    def cancel(self):
        if self._done:
            return False
        if self in [w[0] for w in self._ex._work]:
            self._ex._work = [w for w in self._ex._work if w[0] is not self]
            self._cancelled = True
            self._done = True
            return True
        return False

    def _wait(self, timeout):
        s = _current_sched
        ok = s.yield_point('f.wait', pred=lambda: self._done, timeout=timeout, info=(self._n,))
        if not ok:
            raise _cf.TimeoutError()

    def result(self, timeout=None):
        self._wait(timeout)
        if self._cancelled:
            raise _cf.CancelledError()
        if self._exc is not None:
            raise self._exc
        return self._result

    def exception(self, timeout=None):
        self._wait(timeout)
        if self._cancelled:
            raise _cf.CancelledError()
        return self._exc

    def add_done_callback(self, fn):
        if self._done:
            fn(self)
        else:
            self._callbacks.append(fn)

    def _finish(self, result, exc):
        self._result = result
        self._exc = exc
        self._done = True
        for fn in self._callbacks:
            try:
                fn(self)
            except Exception:
                pass


class SimExecutor:
    """ThreadPoolExecutor on simulated threads: FIFO work list, up to max_workers workers, worker
    exceptions are stored in the future and never printed (the real behaviour)."""

    def __init__(self, max_workers=None, thread_name_prefix='', initializer=None, initargs=()):
        if max_workers is None:
            max_workers = 5
        if max_workers <= 0:
            raise ValueError("max_workers must be greater than 0")
        self._max_workers = max_workers
        self._shutdown = False
        self._sched = None
        self.max_inflight = 0
        self._bind()

    def _bind(self):
        """A pool belongs to the run in which it is used: one created outside a run, or kept by the
        library in process-wide state from an earlier run (whose worker threads are gone), starts
        afresh, as it would in the fresh process each run stands for."""
        s = _current_sched
        if s is self._sched or s is None:
            return
        self._sched = s
        self._work = []
        self._workers = []
        self._idle = 0
        self._nsub = 0
        self._inflight = 0
        self.ename = s.new_name('pool')
        s.count('pools_created')
        s.pools = getattr(s, 'pools', [])
        s.pools.append(self)

    def submit(self, fn, /, *args, **kwargs):
        self._bind()
        s = _current_sched
        if s is None:
            raise HarnessError('SimExecutor used outside a simulation run')
        s.yield_point('ex.submit', info=(self.ename, self._nsub))
        if self._shutdown:
            raise RuntimeError('cannot schedule new futures after shutdown')
        f = SimFuture(self, self._nsub)
        self._nsub += 1
        self._work.append((f, fn, args, kwargs))
        if self._idle == 0 and len(self._workers) < self._max_workers:
            t = SimThread(target=self._worker, name='w')
            t._role = 'w'
            self._workers.append(t)
            t.start()
        return f

    def _worker(self):
        s = _current_sched
        while True:
            self._idle += 1
            s.yield_point('ex.take', pred=lambda: bool(self._work) or self._shutdown, info=(self.ename,))
            self._idle -= 1
            if not self._work:
                return
            f, fn, args, kwargs = self._work.pop(0)
            self._inflight += 1
            if self._inflight > self.max_inflight:
                self.max_inflight = self._inflight
            try:
                r = fn(*args, **kwargs)
            except SimAbort:
                raise
            except HarnessError:
                raise
            except BaseException as e:
                self._inflight -= 1
                s.count('worker_exception_stored')
                f._finish(None, e)
            else:
                self._inflight -= 1
                f._finish(r, None)

    def map(self, fn, *iterables, timeout=None, chunksize=1):
        fs = [self.submit(fn, *a) for a in zip(*iterables)]

        def gen():
            for f in fs:
                yield f.result(timeout)
        return gen()

    def shutdown(self, wait=True, *, cancel_futures=False):
        self._bind()
        s = _current_sched
        if s is None or s.aborted or s.killing:
            self._shutdown = True
            return
        s.yield_point('ex.shutdown', info=(self.ename,))
        self._shutdown = True
        if cancel_futures:
            for w in list(self._work):
                w[0].cancel()
        if wait:
            s.yield_point('ex.join', pred=lambda: all(not t._alive() for t in self._workers),
                          info=(self.ename,))

    def __enter__(self):
        return self

    def __exit__(self, *exc):
        self.shutdown(wait=True)
        return False


def sim_wait(fs, timeout=None, return_when='ALL_COMPLETED'):
    s = _current_sched
    fs = list(fs)
    if return_when == 'ALL_COMPLETED':
        pred = lambda: all(f._done for f in fs)
    elif return_when == 'FIRST_COMPLETED':
        pred = lambda: any(f._done for f in fs)
    else:
        pred = lambda: all(f._done for f in fs) or any(f._done and f._exc is not None for f in fs)
    s.yield_point('f.waitall', pred=pred, timeout=timeout)
    done = {f for f in fs if f._done}
    return _cf._base.DoneAndNotDoneFutures(done, set(fs) - done)


def sim_as_completed(fs, timeout=None):
    s = _current_sched
    pending = list(fs)
    while pending:
        ok = s.yield_point('f.next', pred=lambda: any(f._done for f in pending), timeout=timeout)
        if not ok:
            raise _cf.TimeoutError()
        for f in pending:
            if f._done:
                pending.remove(f)
                yield f
                break


class SimCF:
    """Stands in for the ``concurrent.futures`` module object bound as ``loader.cf``."""
    ThreadPoolExecutor = SimExecutor
    Future = SimFuture
    wait = staticmethod(sim_wait)
    as_completed = staticmethod(sim_as_completed)
    ALL_COMPLETED = 'ALL_COMPLETED'
    FIRST_COMPLETED = 'FIRST_COMPLETED'
    FIRST_EXCEPTION = 'FIRST_EXCEPTION'
    TimeoutError = _cf.TimeoutError
    CancelledError = _cf.CancelledError

    def __getattr__(self, name):
        raise HarnessError(f'unsupported stub API concurrent.futures.{name}')


# --------------------------------------------------------------------------------------------
# guard: no thread may escape the simulator during a run
# --------------------------------------------------------------------------------------------

def _guarded_start(self, *a, **k):
    if _current_sched is not None and not getattr(self, '_sim_ok', False):
        _current_sched.harness_error = 'uncontrolled thread started during a simulation run'
        raise HarnessError(_current_sched.harness_error)
    return _real_thread_start(self, *a, **k)


def install_thread_guard():
    _threading.Thread.start = _guarded_start
