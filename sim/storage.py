"""Simulated file system, write handles (real CPython buffering over a logged raw file), read
handles, blob clients and read-fault plans."""
import builtins
import errno
import hashlib
import io

from . import core

PREFIX = '/simfs/'
_real_open = builtins.open

LAT_LOCAL_READ = 50e-6
LAT_LOCAL_WRITE = 30e-6
LAT_BLOB = 20e-3


class SimTransportError(Exception):
    """Generic remote failure (stands for azure.core.exceptions.*)."""


class SimInvalidRange(SimTransportError):
    """The service's answer to a range that starts at or beyond the end of the blob (HTTP 416)."""


class SimIncompleteRead(SimTransportError):
    """Stands for the SDK's IncompleteReadError / ServiceResponseError."""


LOCAL_EXC = ['OSError(EIO)', 'TimeoutError', 'ConnectionResetError', 'InterruptedError', 'OSError(ESTALE)',
             'ValueError', 'EOFError', 'MemoryError']
REMOTE_EXC = ['SimTransportError', 'TimeoutError', 'ConnectionResetError', 'SimIncompleteRead', 'OSError(EIO)',
              'ValueError', 'EOFError', 'RuntimeError']


def local_exception(arg):
    """The exception an injected local read failure raises; `arg` (seeded) selects the class so that
    error handling written for one class only (ConnectionError, TimeoutError, EINTR, OSError ...) is met."""
    k = (arg or 0) % len(LOCAL_EXC)
    if k == 0:
        return OSError(errno.EIO, 'Input/output error (injected)')
    if k == 1:
        return TimeoutError(errno.ETIMEDOUT, 'Connection timed out (injected)')
    if k == 2:
        return ConnectionResetError(errno.ECONNRESET, 'Connection reset by peer (injected)')
    if k == 3:
        return InterruptedError(errno.EINTR, 'Interrupted system call (injected)')
    if k == 4:
        return OSError(errno.ESTALE, 'Stale file handle (injected)')
    if k == 5:
        return ValueError('I/O operation on closed file (injected)')
    if k == 6:
        return EOFError('unexpected end of stream (injected)')
    return MemoryError('cannot allocate read buffer (injected)')


def remote_exception(arg, where):
    k = (arg or 0) % len(REMOTE_EXC)
    if k == 0:
        return SimTransportError(f'service unavailable during {where} (injected)')
    if k == 1:
        return TimeoutError(f'timed out during {where} (injected)')
    if k == 2:
        return ConnectionResetError(errno.ECONNRESET, f'connection reset during {where} (injected)')
    if k == 3:
        return SimIncompleteRead(f'incomplete read during {where} (injected)')
    if k == 4:
        return OSError(errno.EIO, f'I/O error during {where} (injected)')
    if k == 5:
        return ValueError(f'malformed response during {where} (injected)')
    if k == 6:
        return EOFError(f'connection closed during {where} (injected)')
    return RuntimeError(f'client closed during {where} (injected)')


def _yp(kind, info=(), advance=0.0, stall=False):
    s = core.current()
    if s is not None:
        st = {'released': False, 'fired0': s.counters.get('timeout_fired', 0)} if stall else None
        s.yield_point(kind, info=info, advance=advance, stall=st)
        if st is not None:
            s.count('stalled_requests')


def _thread_name():
    s = core.current()
    return s.cur.name if s is not None else 'main'


class FaultPlan:
    """Faults over the k-th range request (counted from arm()) of a handle / blob."""

    def __init__(self, plan=None):
        self.plan = dict(plan or {})   # k -> (kind, arg)
        self.armed = False
        self.k = 0
        self.fired = []                # (k, kind, offset, length, thread)

    def arm(self):
        self.armed = True
        self.k = 0

    def disarm(self):
        self.armed = False

    def next(self):
        """Returns (k, fault or None) for the request being issued now."""
        if not self.armed:
            return None, None
        k = self.k
        self.k += 1
        return k, self.plan.get(k)


class SimFS:
    def __init__(self, bufsize=4096):
        self.files = {}          # path -> bytearray
        self.bufsize = bufsize
        self.oslog = []          # (seq, path, hid, kind, offset, data, thread)   kind: 'trunc' | 'write'
        self.apilog = []         # (seq, path, hid, mode, op, offset, length, data, thread)
        self.reqlog = []         # (call_id, backend, path, offset, requested, returned, thread)
        self.nhandles = 0
        self.call_id = 0
        self.faults = FaultPlan()
        self.read_only = set()
        self.seq = 0
        self.open_handles = []
        self.fds = {}            # fake file descriptor -> handle (fileno() of simulated handles)
        self.wfault = None       # write-fault plan: {'k': index of the OS-level write, 'kind': 'enospc' | 'eio_once',
        #                           'n': writes attempted so far, 'fired': count}
        self.meta = {}           # path -> [inode, sequence number of the last modification] (what stat() shows)
        self.ninodes = 0

    # -- helpers -----------------------------------------------------------------------------
    def _next_seq(self):
        self.seq += 1
        return self.seq

    def add_file(self, path, data, read_only=True):
        assert path.startswith(PREFIX)
        self.files[path] = bytearray(data)
        self.new_inode(path)
        if read_only:
            self.read_only.add(path)

    def new_inode(self, path):
        self.ninodes += 1
        self.meta[path] = [self.ninodes, self._next_seq()]

    def touch(self, path):
        m = self.meta.get(path)
        if m is None:
            self.new_inode(path)
        else:
            m[1] = self._next_seq()

    def replace_content(self, path, data):
        """Another file takes the place of `path` (copied / moved over it from outside the process under test):
        new inode, new modification time."""
        self.files[path] = bytearray(data)
        self.new_inode(path)

    def exists(self, path):
        return path in self.files

    def image(self, path):
        return bytes(self.files[path])

    def new_call(self):
        self.call_id += 1
        return self.call_id

    FD_BASE = 1 << 20

    def fd_of(self, handle):
        fd = self.FD_BASE + handle._hid
        self.fds[fd] = handle
        return fd

    # -- metadata operations of the simulated OS (all logged, all crash points) ------------------
    def os_truncate(self, path, size, hid=0):
        f = self.files[path]
        entry = (self._next_seq(), path, hid, 'ftrunc', size, b'', _thread_name())
        self.oslog.append(entry)
        SimFS.apply(f, entry)
        self.touch(path)

    def os_rename(self, src, dst):
        if src not in self.files:
            raise FileNotFoundError(errno.ENOENT, 'No such file or directory', src)
        if dst in self.read_only or src in self.read_only:
            raise core.HarnessError(f'rename touching read-only library file {src} -> {dst}')
        _yp('w.rename')
        self.oslog.append((self._next_seq(), dst, 0, 'rename', 0, src, _thread_name()))
        self.files[dst] = self.files.pop(src)
        if src in self.meta:
            self.meta[dst] = self.meta.pop(src)

    def os_remove(self, path):
        if path not in self.files:
            raise FileNotFoundError(errno.ENOENT, 'No such file or directory', path)
        if path in self.read_only:
            raise core.HarnessError(f'removal of read-only library file {path}')
        _yp('w.remove')
        self.oslog.append((self._next_seq(), path, 0, 'remove', 0, b'', _thread_name()))
        del self.files[path]
        self.meta.pop(path, None)

    @staticmethod
    def replay(oslog, upto=None, torn=None):
        """State of the simulated disk after the first `upto` log entries (all when None), the next
        one optionally cut after `torn` bytes: {path: bytearray}."""
        files = {}
        n = len(oslog) if upto is None else upto
        for entry in oslog[:n]:
            SimFS.apply_fs(files, entry)
        if torn is not None and n < len(oslog):
            SimFS.apply_fs(files, oslog[n], upto=torn)
        return files

    @staticmethod
    def apply_fs(files, entry, upto=None):
        _, path, _, kind, off, data, _ = entry
        if kind == 'rename':
            if data in files:
                files[path] = files.pop(data)
            return
        if kind == 'remove':
            files.pop(path, None)
            return
        if kind == 'fsync':
            return
        SimFS.apply(files.setdefault(path, bytearray()), entry, upto)

    # -- open --------------------------------------------------------------------------------
    def open(self, path, mode='r', buffering=-1, *args, **kwargs):
        if not isinstance(path, (str, int)) and hasattr(path, '__fspath__'):
            import os as _os
            path = _os.fspath(path)              # pathlib.Path and friends
        if not (isinstance(path, str) and path.startswith(PREFIX)):
            return _real_open(path, mode, buffering, *args, **kwargs)
        if 'b' not in mode:
            raise core.HarnessError(f'unsupported stub API: text-mode open({mode!r}) on simulated file')
        m = mode.replace('b', '')
        plus = '+' in m
        base = m.replace('+', '')
        if base == 'r' and not plus:
            if path not in self.files:
                raise FileNotFoundError(errno.ENOENT, 'No such file or directory', path)
            self.nhandles += 1
            h = SimReadHandle(self, path, self.nhandles)
            self.open_handles.append(h)
            return h
        if path in self.read_only:
            raise core.HarnessError(f'write open of read-only library file {path}')
        _yp('w.open', info=(mode,))
        self.nhandles += 1
        hid = self.nhandles
        if base == 'r':
            if path not in self.files:
                raise FileNotFoundError(errno.ENOENT, 'No such file or directory', path)
        elif base == 'w':
            self.files[path] = bytearray()
            self.oslog.append((self._next_seq(), path, hid, 'trunc', 0, b'', _thread_name()))
            self.touch(path)
        elif base == 'x':
            if path in self.files:
                raise FileExistsError(errno.EEXIST, 'File exists', path)
            self.files[path] = bytearray()
            self.new_inode(path)
        elif base == 'a':
            if path not in self.files:
                self.files[path] = bytearray()
                self.new_inode(path)
        else:
            raise ValueError(f'invalid mode: {mode!r}')
        raw = SimRaw(self, path, hid, readable=plus or base == 'r', append=(base == 'a'))
        bs = self.bufsize if buffering in (-1, None) else buffering
        if bs == 0:
            buf = raw
        elif plus:
            buf = io.BufferedRandom(raw, buffer_size=bs)
        else:
            buf = io.BufferedWriter(raw, buffer_size=bs)
        h = SimWriteHandle(self, path, hid, mode, buf)
        self.apilog.append((self._next_seq(), path, hid, mode, 'open', 0, 0, b'', _thread_name()))
        self.open_handles.append(h)
        return h

    def real_copy(self, path):
        """An unnamed-on-exit temporary file holding the current image of a simulated path, for consumers that open
        files by name outside every seam (numpy.fromfile / numpy.memmap given a path).  Read only."""
        import tempfile
        f = tempfile.NamedTemporaryFile(prefix='verif_copy_', delete=True)
        f.write(bytes(self.files[path]))
        f.flush()
        self._copies = getattr(self, '_copies', [])
        self._copies.append(f)
        return f.name

    def drop_copies(self):
        for f in getattr(self, '_copies', []):
            try:
                f.close()
            except Exception:
                pass
        self._copies = []

    # -- crash images --------------------------------------------------------------------------
    def os_writes(self, path):
        return [e for e in self.oslog if e[1] == path]

    @staticmethod
    def apply(img, entry, upto=None):
        _, _, _, kind, off, data, _ = entry
        if kind == 'trunc':
            del img[:]
            return
        if kind == 'ftrunc':
            if off < len(img):
                del img[off:]
            else:
                img.extend(bytes(off - len(img)))
            return
        if kind in ('fsync', 'rename', 'remove'):
            return
        if kind == 'initial':
            img[:] = data
            return
        if upto is not None:
            data = data[:upto]
        if not data:
            return
        if off > len(img):
            img.extend(bytes(off - len(img)))
        img[off:off + len(data)] = data


class SimRaw(io.RawIOBase):
    """The 'OS' side of a written file: every write() that CPython's buffer layer issues lands
    here and is appended to the OS-level write log."""

    def __init__(self, fs, path, hid, readable=False, append=False):
        super().__init__()
        self.fs = fs
        self.path = path
        self.hid = hid
        self._readable = readable
        self._append = append
        self._pos = len(fs.files[path]) if append else 0
        self.name = path

    def readable(self):
        return self._readable

    def writable(self):
        return True

    def seekable(self):
        return True

    def tell(self):
        return self._pos

    def seek(self, off, whence=0):
        if whence == 0:
            self._pos = off
        elif whence == 1:
            self._pos += off
        elif whence == 2:
            self._pos = len(self.fs.files[self.path]) + off
        if self._pos < 0:
            raise OSError(errno.EINVAL, 'Invalid argument')
        return self._pos

    def readinto(self, b):
        data = self.fs.files[self.path][self._pos:self._pos + len(b)]
        n = len(data)
        b[:n] = data
        self._pos += n
        return n

    def write(self, b):
        data = bytes(b)
        f = self.fs.files[self.path]
        wf = self.fs.wfault
        if wf is not None:
            i = wf['n']
            wf['n'] = i + 1
            if i == wf['k'] or (i > wf['k'] and wf['kind'] == 'enospc'):
                wf['fired'] += 1
                if wf['kind'] == 'enospc':
                    raise OSError(errno.ENOSPC, 'No space left on device (injected)')
                raise OSError(errno.EIO, 'Input/output error (injected)')
        if self._append:
            self._pos = len(f)
        entry = (self.fs._next_seq(), self.path, self.hid, 'write', self._pos, data, _thread_name())
        self.fs.oslog.append(entry)
        SimFS.apply(f, entry)
        self.fs.touch(self.path)
        self._pos += len(data)
        return len(data)

    def truncate(self, size=None):
        if size is None:
            size = self._pos
        self.fs.os_truncate(self.path, size, self.hid)
        return size

    def fileno(self):
        return self.fs.FD_BASE + self.hid


class SimWriteHandle:
    """Thin proxy *around* the Buffered* object: scheduler decision points and the API-level log
    live here, so no simulated thread is ever parked inside CPython's buffer lock."""

    def __init__(self, fs, path, hid, mode, buf):
        self._fs = fs
        self._path = path
        self._hid = hid
        self.mode = mode
        self._buf = buf
        self.name = path

    def _log(self, op, off=0, length=0, data=b''):
        self._fs.apilog.append((self._fs._next_seq(), self._path, self._hid, self.mode, op, off, length, data,
                                _thread_name()))

    @property
    def closed(self):
        return self._buf.closed

    def write(self, b):
        _yp('w.write', info=(self._hid,), advance=LAT_LOCAL_WRITE)
        if self._buf.closed:
            self._log('write-closed')
            raise ValueError('write to closed file')
        mv = bytes(b) if not isinstance(b, (bytes, bytearray)) else b
        off = self._buf.tell()
        n = self._buf.write(mv)
        self._log('write', off, len(mv), bytes(mv))
        return n

    def flush(self):
        _yp('w.flush', info=(self._hid,))
        if self._buf.closed:
            self._log('flush-closed')
            raise ValueError('flush of closed file')
        self._log('flush')
        return self._buf.flush()

    def seek(self, off, whence=0):
        _yp('w.seek', info=(self._hid,))
        r = self._buf.seek(off, whence)
        self._log('seek', r)
        return r

    def tell(self):
        return self._buf.tell()

    def read(self, n=-1):
        _yp('w.read', info=(self._hid,))
        return self._buf.read(n)

    def close(self):
        if self._buf.closed:
            return
        _yp('w.close', info=(self._hid,))
        self._log('close')
        self._buf.close()

    def truncate(self, size=None):
        _yp('w.truncate', info=(self._hid,))
        self._log('truncate', size if size is not None else self._buf.tell())
        return self._buf.truncate(size)

    def fileno(self):
        return self._fs.fd_of(self)

    def _raw(self):
        return getattr(self._buf, 'raw', self._buf)

    def os_write(self, data, offset=None):
        """os.write / os.pwrite on this handle's descriptor: straight to the OS, past the user-space buffer of
        the file object (whose own idea of the position is not updated, as with a real descriptor)."""
        _yp('w.oswrite', info=(self._hid,), advance=LAT_LOCAL_WRITE)
        raw = self._raw()
        if raw.closed:
            self._log('write-closed')
            raise OSError(errno.EBADF, 'Bad file descriptor')
        data = bytes(data)
        if offset is None:
            off = len(self._fs.files[self._path]) if raw._append else raw._pos
            n = raw.write(data)
        else:
            keep = raw._pos
            raw._pos = off = offset
            app, raw._append = raw._append, False
            try:
                n = raw.write(data)
            finally:
                raw._pos = keep
                raw._append = app
        self._log('write', off, len(data), data)
        return n

    def os_flush(self):
        """What os.fsync(fd) sees: nothing of the user-space buffer (that needs flush() first)."""
        self._fs.oslog.append((self._fs._next_seq(), self._path, self._hid, 'fsync', 0, b'', _thread_name()))

    def writable(self):
        return True

    def readable(self):
        return '+' in self.mode

    def seekable(self):
        return True

    def __enter__(self):
        return self

    def __exit__(self, *exc):
        self.close()
        return False


class _NullRaw(io.RawIOBase):
    def readable(self):
        return True

    def seekable(self):
        return True

    def readinto(self, b):
        return 0


class SimReadHandle(io.BufferedReader):
    """A file opened 'rb' on the simulated file system.  It *is* an io.BufferedReader (what open()
    returns for a regular file, so type checks in the library see what they see in production), but
    every method is served from the SimFS image: read(n) returns exactly n bytes unless EOF (the
    semantics of BufferedReader.read on a regular file) or an injected fault."""

    mode = 'rb'

    def __init__(self, fs, path, hid):
        super().__init__(_NullRaw())
        self._fs = fs
        self._path = path
        self._hid = hid
        self._pos = 0
        self._sim_closed = False
        self._real = None

    @property
    def name(self):
        return self._path

    @property
    def closed(self):
        return self._sim_closed

    def _data(self):
        return self._fs.files[self._path]

    def seek(self, off, whence=0):
        if self._sim_closed:
            raise ValueError('seek of closed file')
        _yp('r.seek', info=(self._hid,))
        fp = self._fs.faults
        if fp.armed and fp.plan.get(fp.k, (None,))[0] == 'exception_seek':
            k, fault = fp.next()          # the range read that starts with this seek is the faulted one
            fp.fired.append((k, 'exception_seek', off, 0, _thread_name()))
            self._fs.reqlog.append((self._fs.call_id, 'file', self._path, off, 0, -1, _thread_name()))
            raise local_exception(fault[1] if len(fault) > 1 else 0)
        if whence == 0:
            pos = off
        elif whence == 1:
            pos = self._pos + off
        else:
            pos = len(self._data()) + off
        if pos < 0:
            raise OSError(errno.EINVAL, 'Invalid argument')
        self._pos = pos
        return pos

    def tell(self):
        return self._pos

    def read(self, n=-1):
        if self._sim_closed:
            raise ValueError('read of closed file')
        out = self._range(None, n, 'r.read')       # None: from wherever the handle stands when the read executes
        return out

    def pread(self, n, offset):
        """os.pread on this handle's descriptor: positional, does not move the file position."""
        return self._range(offset, n, 'r.pread')

    def _range(self, off, n, kind):
        fp = self._fs.faults
        stall = fp.armed and fp.plan.get(fp.k, (None,))[0] == 'stall'
        _yp(kind, info=(self._hid,), advance=LAT_LOCAL_READ, stall=stall)
        # the position is looked at *after* the decision point: another thread sharing this handle may have
        # moved it between this thread's seek and its read
        sequential = off is None
        if sequential:
            off = self._pos
        fs = self._fs
        data = self._data()
        if n is None or n < 0:
            want = max(0, len(data) - off)
        else:
            want = n
        k, fault = fs.faults.next()
        if fault is not None:
            fk = fault[0]
            fs.faults.fired.append((k, fk, off, want, _thread_name()))
            if fk == 'exception':
                fs.reqlog.append((fs.call_id, 'file', self._path, off, want, -1, _thread_name()))
                raise local_exception(fault[1] if len(fault) > 1 else 0)
            avail = bytes(data[off:off + want])
            if fk == 'empty':
                out = b''
            elif fk in ('stall', 'exception_seek', 'exception_readall'):
                out = avail      # (a stalled request answers in full, late; the other two belong to other operations)
            else:   # short: a strict prefix
                m = min(fault[1], max(0, len(avail) - 1))
                out = avail[:m]
        else:
            out = bytes(data[off:off + want])
        fs.reqlog.append((fs.call_id, 'file', self._path, off, want, len(out), _thread_name()))
        if sequential:
            self._pos = off + len(out)
        return out

    read1 = read

    def readinto(self, b):
        d = self.read(len(b))
        b[:len(d)] = d
        return len(d)

    readinto1 = readinto

    def peek(self, n=0):
        raise core.HarnessError('unsupported stub API: peek on simulated file')

    def readline(self, size=-1):
        raise core.HarnessError('unsupported stub API: readline on simulated binary file')

    def detach(self):
        raise core.HarnessError('unsupported stub API: detach on simulated file')

    def readable(self):
        return True

    def seekable(self):
        return True

    def writable(self):
        return False

    def flush(self):
        pass

    def isatty(self):
        return False

    def close(self):
        self._sim_closed = True
        self._drop_real()

    def _drop_real(self):
        f, self._real = self._real, None
        if f is not None:
            try:
                self._fs.fds.pop(f.fileno(), None)
                f.close()
            except Exception:
                pass

    def fileno(self):
        """A real descriptor on an unnamed temporary copy of the image, created on first use: consumers outside the
        seam (numpy.fromfile, mmap, C extensions) see the true bytes; the library's own os.* calls on it are still
        served - and logged - by the simulated OS."""
        if self._sim_closed:
            raise ValueError('I/O operation on closed file')
        if self._real is None:
            import tempfile
            f = tempfile.TemporaryFile(prefix='verif_fd_')
            f.write(bytes(self._data()))
            f.flush()
            f.seek(self._pos)
            self._real = f
            self._fs.fds[f.fileno()] = self
        return self._real.fileno()

    def __enter__(self):
        return self

    def __exit__(self, *exc):
        self.close()
        return False

    def __del__(self):
        try:
            self._drop_real()
        except Exception:
            pass

    def __repr__(self):
        return f"<SimReadHandle name={self._path!r}>"


class SimPlainHandle:
    """A file-like object that is not an OS file (what io.BytesIO, an fsspec / zip / tar member or any wrapper with
    read / seek / name is): no descriptor, not an io.BufferedReader.  Served by the same simulated handle."""

    def __init__(self, inner):
        self._h = inner

    @property
    def name(self):
        return self._h.name

    @property
    def closed(self):
        return self._h.closed

    mode = 'rb'

    def read(self, n=-1):
        return self._h.read(n)

    def readinto(self, b):
        return self._h.readinto(b)

    def seek(self, off, whence=0):
        return self._h.seek(off, whence)

    def tell(self):
        return self._h.tell()

    def close(self):
        self._h.close()

    def fileno(self):
        raise io.UnsupportedOperation('fileno')

    def readable(self):
        return True

    def seekable(self):
        return True

    def writable(self):
        return False

    def flush(self):
        pass

    def __enter__(self):
        return self

    def __exit__(self, *exc):
        self.close()
        return False


class _SimDownload:
    def __init__(self, blob, k, off, length, fault):
        self._blob = blob
        self._k = k
        self._off = off
        self._len = length
        self._fault = fault

    def readall(self):
        _yp('b.readall', info=(self._k if self._k is not None else -1,), advance=LAT_BLOB,
            stall=self._fault is not None and self._fault[0] == 'stall')
        fs = self._blob._fs
        data = fs.files[self._blob._path]
        avail = bytes(data[self._off:self._off + self._len])
        fault = self._fault
        if fault is not None:
            kind = fault[0]
            if kind == 'exception_readall':
                fs.reqlog.append((fs.call_id, 'blob', self._blob._path, self._off, self._len, -1, _thread_name()))
                raise remote_exception(fault[1] if len(fault) > 1 else 0, 'readall')
            if kind == 'empty':
                avail = b''
            elif kind == 'short':
                avail = avail[:min(fault[1], max(0, len(avail) - 1))]
        fs.reqlog.append((fs.call_id, 'blob', self._blob._path, self._off, self._len, len(avail), _thread_name()))
        return avail

    def content_as_bytes(self, *a, **k):
        return self.readall()

    # the other ways the SDK's StorageStreamDownloader hands out the same bytes (one answer per download: the
    # fault, if any, applies to whichever of them is used first)
    def _once(self):
        if not hasattr(self, '_answer'):
            self._answer = self.readall()
        return self._answer

    def readinto(self, stream):
        data = self._once()
        stream.write(data)
        return len(data)

    def read(self, size=-1):
        data = self._once()
        pos = getattr(self, '_rpos', 0)
        out = data[pos:] if size is None or size < 0 else data[pos:pos + size]
        self._rpos = pos + len(out)
        return out

    def chunks(self):
        data = self._once()
        for i in range(0, len(data), 4 << 20):
            yield data[i:i + (4 << 20)]

    @property
    def size(self):
        return self._len

    @property
    def properties(self):
        return self._blob.get_blob_properties()


class SimBlob:
    """In-process fake of the three BlobClient calls the library uses."""

    def __init__(self, fs, path):
        self._fs = fs
        self._path = path
        self.blob_name = path
        self.closed = False

    def download_blob(self, offset=None, length=None, **kwargs):
        _yp('b.download', info=(), advance=0.0)
        fs = self._fs
        size = len(fs.files[self._path])
        off = 0 if offset is None else offset
        ln = (size - off) if length is None else length
        k, fault = fs.faults.next()
        if fault is not None:
            fs.faults.fired.append((k, fault[0], off, ln, _thread_name()))
            if fault[0] == 'exception':
                fs.reqlog.append((fs.call_id, 'blob', self._path, off, ln, -1, _thread_name()))
                raise remote_exception(fault[1] if len(fault) > 1 else 0, 'download_blob')
        if off >= size and size > 0 or (size == 0 and off > 0):
            fs.reqlog.append((fs.call_id, 'blob', self._path, off, ln, -1, _thread_name()))
            raise SimInvalidRange('InvalidRange: The range specified is invalid for the current size')
        return _SimDownload(self, k, off, ln, fault)

    def get_blob_properties(self, **kwargs):
        """size / etag / last_modified of the blob as it is now (a replaced blob has another etag)."""
        fs = self._fs
        ino, mseq = fs.meta.get(self._path, (1, 0))
        return _BlobProperties(len(fs.files[self._path]), f'"0x{ino:04X}{mseq:08X}"', 1.7e9 + mseq * 1e-3, self._path)

    def exists(self, **kwargs):
        return self._path in self._fs.files

    def close(self):
        self.closed = True

    def __enter__(self):
        return self

    def __exit__(self, *exc):
        self.close()


class _BlobProperties(dict):
    """BlobProperties look-alike: attribute and key access."""

    def __init__(self, size, etag, mtime, name):
        import datetime
        lm = datetime.datetime.fromtimestamp(mtime, datetime.timezone.utc)
        super().__init__(size=size, etag=etag, last_modified=lm, name=name)
        self.size = size
        self.etag = etag
        self.last_modified = lm
        self.name = name
