"""Binds the simulator to the seams of seismic_zfp (module-level names) for the duration of a run."""
import errno
import gc
import os
import sys
import types
import warnings

REPO = os.path.realpath(os.environ.get('VERIF_REPO', '/repo'))
if sys.path[0] != REPO:
    sys.path.insert(0, REPO)

warnings.filterwarnings('ignore')

import threading as _threading
import queue as _queue
import concurrent.futures as _cf

from . import core, storage

import seismic_zfp                                     # noqa: E402
import seismic_zfp.conversion_utils as m_cu            # noqa: E402
import seismic_zfp.conversion as m_conv                # noqa: E402
import seismic_zfp.cropping as m_crop                  # noqa: E402
import seismic_zfp.read as m_read                      # noqa: E402
import seismic_zfp.loader as m_loader                  # noqa: E402
import seismic_zfp.utils as m_utils                    # noqa: E402

if not os.path.realpath(seismic_zfp.__file__).startswith(REPO + os.sep):
    print(f'HARNESS-ERROR seismic_zfp imported from {seismic_zfp.__file__}, expected under {REPO}')
    sys.exit(3)
for _m in ('segyio_emulator', 'accessors', 'cropping', 'open', 'tools', 'headers', 'version', 'seismicfile'):
    try:
        __import__('seismic_zfp.' + _m)
    except Exception:                                   # optional dependencies of a module
        pass

STUB_VERSION = '0.4.1'


class _Dist:
    def __init__(self, v):
        self.version = v


class VersionStub:
    """Stands in for pkg_resources inside conversion_utils: the sandbox's development install has a
    version string the writer cannot parse, so every conversion would abort before writing."""

    def __init__(self, version=STUB_VERSION):
        self._v = version

    def get_distribution(self, name):
        return _Dist(self._v)


class _VMem:
    def __init__(self, total):
        self.total = total
        self.available = total


class PsutilShim:
    def __init__(self, mem_total, cpu):
        self._mem = mem_total
        self._cpu = cpu

    def virtual_memory(self):
        return _VMem(self._mem)

    def cpu_count(self, logical=True):
        return self._cpu

    def __getattr__(self, name):
        raise core.HarnessError(f'unsupported stub API psutil.{name}')


class VClock:
    """time module stand-in: reads the scheduler's virtual clock."""
    BASE = 1.7e9

    def time(self):
        s = core.current()
        return self.BASE + (s.clock if s is not None else 0.0)

    def monotonic(self):
        return self.time() - self.BASE

    perf_counter = monotonic

    def sleep(self, d):
        s = core.current()
        if s is not None:
            s.yield_point('sleep', pred=lambda: False, timeout=max(0.0, d))

    def __getattr__(self, name):
        import time as _t
        return getattr(_t, name)


class _PathShim:
    def __init__(self, fs):
        self._fs = fs

    def _sim(self, p):
        return isinstance(p, str) and p.startswith(storage.PREFIX)

    def exists(self, p):
        return self._fs.exists(p) if self._sim(p) else os.path.exists(p)

    lexists = exists

    def isfile(self, p):
        return self._fs.exists(p) if self._sim(p) else os.path.isfile(p)

    def isdir(self, p):
        return p.rstrip('/') == storage.PREFIX.rstrip('/') if self._sim(p) else os.path.isdir(p)

    def getsize(self, p):
        if self._sim(p):
            if p not in self._fs.files:
                raise FileNotFoundError(2, 'No such file or directory', p)
            return len(self._fs.files[p])
        return os.path.getsize(p)

    def __getattr__(self, name):
        return getattr(os.path, name)


class _Stat:
    """The fields of os.stat_result a caller plausibly looks at for a regular file."""

    def __init__(self, size, meta=None):
        ino, mseq = meta or (1, 0)
        self.st_size = size
        self.st_mode = 0o100644
        self.st_blksize = 4096
        self.st_blocks = (size + 511) // 512
        self.st_nlink = 1
        self.st_uid = self.st_gid = 0
        self.st_ino = ino
        self.st_dev = 1
        # modification time: advances by a millisecond per event of the simulated disk
        self.st_mtime_ns = self.st_ctime_ns = 1_700_000_000_000_000_000 + mseq * 1_000_000
        self.st_atime_ns = 1_700_000_000_000_000_000
        self.st_mtime = self.st_ctime = self.st_mtime_ns / 1e9
        self.st_atime = 1.7e9

    def __getitem__(self, i):          # os.stat_result is also a 10-tuple
        return (self.st_mode, self.st_ino, self.st_dev, self.st_nlink, self.st_uid, self.st_gid, self.st_size,
                int(self.st_atime), int(self.st_mtime), int(self.st_ctime))[i]


class OsShim:
    """os as seen by the library: paths under the simulated prefix and the fake descriptors of
    simulated handles are served from SimFS, everything else from the real module."""

    def __init__(self, fs):
        self._fs = fs
        self.path = _PathShim(fs)

    def _sim(self, p):
        return isinstance(p, str) and p.startswith(storage.PREFIX)

    def _handle(self, fd):
        return self._fs.fds.get(fd) if isinstance(fd, int) else None

    def remove(self, p):
        if self._sim(p):
            return self._fs.os_remove(p)
        return os.remove(p)

    unlink = remove

    def rename(self, a, b):
        if self._sim(a) or self._sim(b):
            if not (self._sim(a) and self._sim(b)):
                raise core.HarnessError('rename between the simulated and the real file system')
            return self._fs.os_rename(a, b)
        return os.rename(a, b)

    replace = rename

    def stat(self, p, *a, **k):
        h = self._handle(p)
        if h is not None:
            return self.fstat(p)
        if self._sim(p):
            return _Stat(self.path.getsize(p), self._fs.meta.get(p))
        return os.stat(p, *a, **k)

    def fstat(self, fd):
        h = self._handle(fd)
        if h is None:
            return os.fstat(fd)
        return _Stat(len(self._fs.files[h._path]), self._fs.meta.get(h._path))

    def fsync(self, fd):
        h = self._handle(fd)
        if h is None:
            return os.fsync(fd)
        storage._yp('w.fsync')
        if hasattr(h, 'os_flush'):
            h.os_flush()

    fdatasync = fsync

    def ftruncate(self, fd, size):
        h = self._handle(fd)
        if h is None:
            return os.ftruncate(fd, size)
        storage._yp('w.ftruncate')
        self._fs.os_truncate(h._path, size, h._hid)

    def truncate(self, p, size):
        if self._handle(p) is not None:
            return self.ftruncate(p, size)
        if self._sim(p):
            storage._yp('w.ftruncate')
            return self._fs.os_truncate(p, size)
        return os.truncate(p, size)

    def posix_fallocate(self, fd, offset, length):
        h = self._handle(fd)
        if h is None:
            return os.posix_fallocate(fd, offset, length)
        storage._yp('w.fallocate')
        if offset + length > len(self._fs.files[h._path]):
            self._fs.os_truncate(h._path, offset + length, h._hid)

    def pread(self, fd, n, offset):
        h = self._handle(fd)
        if h is None:
            return os.pread(fd, n, offset)
        if not hasattr(h, 'pread'):
            raise core.HarnessError('unsupported stub API: os.pread on a simulated write handle')
        return h.pread(n, offset)

    def lseek(self, fd, pos, how):
        h = self._handle(fd)
        if h is None:
            return os.lseek(fd, pos, how)
        return h.seek(pos, how)

    def read(self, fd, n):
        h = self._handle(fd)
        if h is None:
            return os.read(fd, n)
        return h.read(n)

    def write(self, fd, data):
        h = self._handle(fd)
        if h is None:
            return os.write(fd, data)
        if not hasattr(h, 'os_write'):
            raise OSError(errno.EBADF, 'Bad file descriptor')
        return h.os_write(data)

    def pwrite(self, fd, data, offset):
        h = self._handle(fd)
        if h is None:
            return os.pwrite(fd, data, offset)
        if not hasattr(h, 'os_write'):
            raise OSError(errno.EBADF, 'Bad file descriptor')
        return h.os_write(data, offset)

    def open(self, p, flags=0, mode=0o777, **k):
        if not self._sim(p):
            return os.open(p, flags, mode, **k)
        # an unbuffered descriptor on the simulated disk
        acc = flags & (os.O_WRONLY | os.O_RDWR)
        if acc == 0:
            h = self._fs.open(p, 'rb')
            return h.fileno()
        exists = self._fs.exists(p)
        if not exists and not flags & os.O_CREAT:
            raise FileNotFoundError(errno.ENOENT, 'No such file or directory', p)
        if exists and flags & os.O_CREAT and flags & os.O_EXCL:
            raise FileExistsError(errno.EEXIST, 'File exists', p)
        if flags & os.O_TRUNC or not exists:
            m = 'wb' if acc == os.O_WRONLY else 'w+b'
        elif flags & os.O_APPEND:
            m = 'ab' if acc == os.O_WRONLY else 'a+b'
        else:
            m = 'r+b'
        h = self._fs.open(p, m, buffering=0)
        return h.fileno()

    def close(self, fd):
        h = self._handle(fd)
        if h is None:
            return os.close(fd)
        h.close()

    def fdopen(self, fd, *a, **k):
        h = self._handle(fd)
        if h is None:
            return os.fdopen(fd, *a, **k)
        return h

    def __getattr__(self, name):
        return getattr(os, name)


class _Null:
    def write(self, s):
        return len(s)

    def flush(self):
        pass

    def isatty(self):
        return False


_NULL = _Null()


# ------------------------------------------------------------------------------------------------
# process-wide state of the library: every run stands for a fresh process
# ------------------------------------------------------------------------------------------------

import functools as _functools

_LRU = type(_functools.lru_cache(maxsize=1)(lambda: None))
_SCALARS = (int, float, str, bool, bytes, tuple, frozenset, type(None))
_CONTAINERS = (dict, list, set)
_LIB_STATE = None


def _holders():
    for mname in sorted(sys.modules):
        mod = sys.modules[mname]
        if mod is None or not (mname == 'seismic_zfp' or mname.startswith('seismic_zfp.')):
            continue
        yield mod
        for v in list(vars(mod).values()):
            if isinstance(v, type) and getattr(v, '__module__', None) == mname:
                yield v


def _snapshot_library_state():
    snap = {}
    for h in _holders():
        for attr, val in list(vars(h).items()):
            if attr.startswith('__') and attr.endswith('__'):
                continue
            if isinstance(val, _CONTAINERS):
                snap[(id(h), attr)] = ('c', val, val.copy())
            elif isinstance(val, _SCALARS):
                snap[(id(h), attr)] = ('s', val, None)
            else:
                snap[(id(h), attr)] = ('o', None, None)
    return snap


def reset_library_state():
    """Module-level and class-level state of the library goes back to what it was at import: containers
    get their original content, rebound scalars their original value, attributes that did not exist are
    removed (a pool or registry created lazily).  Functions, classes and modules are left alone (the
    seams are rebound through those).  functools caches are emptied."""
    global _LIB_STATE
    if _LIB_STATE is None:
        _LIB_STATE = _snapshot_library_state()
        return
    for h in _holders():
        for attr, val in list(vars(h).items()):
            if attr.startswith('__') and attr.endswith('__'):
                continue
            if isinstance(val, _LRU):
                val.cache_clear()
                continue
            rec = _LIB_STATE.get((id(h), attr))
            if rec is None:
                if attr == 'open' or callable(val) or isinstance(val, types.ModuleType):
                    continue
                try:
                    delattr(h, attr)
                except (AttributeError, TypeError):
                    pass
            elif rec[0] == 'c':
                orig = rec[1]
                orig.clear()
                if isinstance(orig, list):
                    orig.extend(rec[2])
                else:
                    orig.update(rec[2])
                if val is not orig:
                    setattr(h, attr, orig)
            elif rec[0] == 's' and val is not rec[1]:
                # (also when the new value is an object: a lazily created singleton kept in an attribute that was
                # None at import)
                setattr(h, attr, rec[1])


def clear_loader_caches():
    """The eight class-level lru_caches of the loaders are process-global state."""
    for cls in (m_loader.SgzLoader3d, m_loader.SgzLoader2d):
        for name in dir(cls):
            a = getattr(cls, name, None)
            if hasattr(a, 'cache_clear'):
                a.cache_clear()


_REAL = {n: getattr(_threading, n) for n in ('Thread', 'Event', 'Lock', 'RLock', 'Condition', 'Semaphore',
                                              'BoundedSemaphore', 'Barrier')}


_LOCK_T = type(_threading.Lock())
_RLOCK_T = type(_threading.RLock())


def _sim_twin(val):
    """A fresh simulated object for a real synchronisation object, or None."""
    if isinstance(val, _LOCK_T):
        return core.SimLock()
    if isinstance(val, _RLOCK_T):
        return core.SimRLock()
    if isinstance(val, _REAL['Event']):
        return core.SimEvent()
    if isinstance(val, _REAL['Condition']):
        return core.SimCondition()
    if isinstance(val, _REAL['BoundedSemaphore']):
        return core.SimBoundedSemaphore(val._initial_value)
    if isinstance(val, _REAL['Semaphore']):
        return core.SimSemaphore(val._value)
    return None


def _for_library(sim, real):
    """Callable bound in place of a standard-library class for the duration of a run."""
    if isinstance(real, type):
        class _Meta(type):
            def __call__(cls, *a, **k):
                caller = sys._getframe(1).f_globals.get('__name__', '')
                if caller == 'seismic_zfp' or caller.startswith('seismic_zfp.'):
                    return sim(*a, **k)
                return real(*a, **k)

            def __instancecheck__(cls, obj):
                return isinstance(obj, (real, sim))

            def __subclasscheck__(cls, sub):
                return issubclass(sub, (real, sim))

        return _Meta(real.__name__, (), {'__doc__': real.__doc__, '_real': real, '_sim': sim})

    def factory(*a, **k):
        caller = sys._getframe(1).f_globals.get('__name__', '')
        if caller == 'seismic_zfp' or caller.startswith('seismic_zfp.'):
            return sim(*a, **k)
        return real(*a, **k)
    return factory


class SimEnv:
    def __init__(self, fs, mem_total=64 << 30, cpu_count=4, version=STUB_VERSION, quiet=True):
        self.fs = fs
        self.mem_total = mem_total
        self.cpu_count = cpu_count
        self.version = version
        self.quiet = quiet
        self._saved = []
        self._bases = []

    def _set(self, mod, name, value):
        self._saved.append((mod, name, getattr(mod, name, _MISSING)))
        setattr(mod, name, value)

    def __enter__(self):
        fs = self.fs
        ps = PsutilShim(self.mem_total, self.cpu_count)
        clock = VClock()
        osshim = OsShim(fs)
        simcf = core.SimCF()
        import time as _time
        import psutil as _psutil
        # real object -> simulated stand-in, wherever a module of the library has bound it
        swap = [(_threading.Thread, core.SimThread), (_queue.Queue, core.SimQueue),
                (_queue.LifoQueue, core.SimLifoQueue), (_queue.SimpleQueue, core.SimSimpleQueue),
                (_cf.ThreadPoolExecutor, core.SimExecutor), (_cf.wait, core.sim_wait),
                (_cf.as_completed, core.sim_as_completed),
                (_REAL['Event'], core.SimEvent), (_REAL['Lock'], core.SimLock), (_REAL['RLock'], core.SimRLock),
                (_REAL['Condition'], core.SimCondition), (_REAL['Semaphore'], core.SimSemaphore),
                (_REAL['BoundedSemaphore'], core.SimBoundedSemaphore), (_REAL['Barrier'], core.SimBarrier),
                (os, osshim), (os.path, osshim.path), (_time, clock), (_psutil, ps), (_cf, simcf),
                (_time.time, clock.time), (_time.sleep, clock.sleep), (_time.monotonic, clock.monotonic),
                (_time.perf_counter, clock.perf_counter)]
        for mname in sorted(sys.modules):
            mod = sys.modules[mname]
            if mod is None or not (mname == 'seismic_zfp' or mname.startswith('seismic_zfp.')):
                continue
            for attr, val in list(vars(mod).items()):
                for real, sim in swap:
                    if val is real:
                        self._set(mod, attr, sim)
                        break
                # a class of the library derived from one of the real classes (class NumberedQueue(Queue))
                # was bound to it when the module was imported: give it the simulated base for the run
                if isinstance(val, type) and getattr(val, '__module__', None) == mname:
                    bases = tuple(next((sim for real, sim in swap[:14] if b is real and isinstance(sim, type)), b)
                                  for b in val.__bases__)
                    if bases != val.__bases__:
                        try:
                            old = val.__bases__
                            val.__bases__ = bases
                            self._bases.append((val, old))
                        except TypeError as e:
                            raise core.HarnessError(f'cannot simulate {val.__name__}, a subclass of a threading / '
                                                    f'queue class ({e})')
            self._set(mod, 'open', fs.open)
            # synchronisation objects created when the module was imported (a module-level guard lock, a
            # class-level condition) are real: a simulated thread pre-empted while holding one would make the
            # next one block for real.  They get a simulated twin for the run.
            holders = [mod] + [v for v in vars(mod).values() if isinstance(v, type) and getattr(v, '__module__', None) == mname]
            for h in holders:
                for attr, val in list(vars(h).items()):
                    twin = _sim_twin(val)
                    if twin is not None:
                        self._set(h, attr, twin)
        self._set(m_cu, 'pkg_resources', VersionStub(self.version))
        # files opened by name past the module-level `open`: io.open (pathlib uses it) goes to the simulated file
        # system; numpy's own file readers get a temporary real copy of the image (read only)
        import io as _io
        import numpy as _np
        self._set(_io, 'open', fs.open)

        def _sim_path(p):
            p = os.fspath(p) if hasattr(p, '__fspath__') else p
            return p if isinstance(p, str) and p.startswith(storage.PREFIX) else None
        real_fromfile, real_memmap = _np.fromfile, _np.memmap

        def fromfile(file, *a, **k):
            sp = _sim_path(file)
            if sp is not None:
                if sp not in fs.files:
                    raise FileNotFoundError(errno.ENOENT, 'No such file or directory', sp)
                file = fs.real_copy(sp)
            return real_fromfile(file, *a, **k)

        class memmap(real_memmap):
            def __new__(cls, filename, dtype=_np.uint8, mode='r+', *a, **k):
                sp = _sim_path(filename)
                if sp is not None:
                    if mode not in ('r', 'c'):
                        raise core.HarnessError('unsupported stub API: writable numpy.memmap on a simulated file')
                    if sp not in fs.files:
                        raise FileNotFoundError(errno.ENOENT, 'No such file or directory', sp)
                    filename = fs.real_copy(sp)
                return real_memmap.__new__(real_memmap, filename, dtype, mode, *a, **k)
        self._set(_np, 'fromfile', fromfile)
        self._set(_np, 'memmap', memmap)
        self._fs_for_copies = fs
        # a change that reaches for the standard-library names at call time is simulated too: the
        # module attributes become factories that hand the simulated class to callers inside the
        # library and the real one to everybody else (threading itself, queue, logging ...)
        for name, sim in (('Thread', core.SimThread), ('Event', core.SimEvent), ('Lock', core.SimLock),
                          ('RLock', core.SimRLock), ('Condition', core.SimCondition),
                          ('Semaphore', core.SimSemaphore), ('BoundedSemaphore', core.SimBoundedSemaphore),
                          ('Barrier', core.SimBarrier)):
            self._set(_threading, name, _for_library(sim, _REAL[name]))
        for name, sim in (('Queue', core.SimQueue), ('LifoQueue', core.SimLifoQueue),
                          ('SimpleQueue', core.SimSimpleQueue)):
            self._set(_queue, name, _for_library(sim, getattr(_queue, name)))
        self._set(_cf, 'ThreadPoolExecutor', _for_library(core.SimExecutor, _cf.ThreadPoolExecutor))
        if self.quiet:
            self._saved.append((sys, 'stdout', sys.stdout))
            sys.stdout = _NULL
        self._gc = gc.isenabled()
        gc.disable()
        return self

    def __exit__(self, *exc):
        try:
            self._fs_for_copies.drop_copies()
        except Exception:
            pass
        for cls, old in reversed(self._bases):
            cls.__bases__ = old
        self._bases = []
        for mod, name, old in reversed(self._saved):
            if old is _MISSING:
                delattr(mod, name)
            else:
                setattr(mod, name, old)
        self._saved = []
        if self._gc:
            gc.enable()
        return False


_MISSING = object()


class RunResult:
    __slots__ = ('status', 'value', 'exc', 'sched', 'drain_steps', 'seq_at_return', 'harness_error', 'at_return',
                 'seq_at_abort')


def run_sim(fn, fs, chooser, step_cap=5000, mem_total=64 << 30, cpu_count=4, queue_cap=None, drain=True,
            on_return=None, preempt=None):
    """Runs fn() as the main simulated thread.  status: ok | raised | deadlock | stepcap."""
    r = RunResult()
    r.value = None
    r.exc = None
    r.harness_error = None
    core.SimQueue.cap_override = queue_cap
    reset_library_state()
    with SimEnv(fs, mem_total=mem_total, cpu_count=cpu_count):
        sched = core.begin(chooser, step_cap)
        r.sched = sched
        r.seq_at_abort = None

        def _mark_abort():
            r.seq_at_abort = fs.seq
        sched.on_abort = _mark_abort
        if preempt is not None:
            # preempt = (probability per library source line, key of the PRNG streams)
            sched.enable_preemption(preempt[0], preempt[1], os.path.join(REPO, 'seismic_zfp') + os.sep,
                                    post=preempt[2] if len(preempt) > 2 else None)
            sys.settrace(sched.tracer)
        try:
            try:
                r.value = fn()
                r.status = 'ok'
            except core.SimDeadlock:
                r.status = 'deadlock'
            except core.SimStepCap:
                r.status = 'stepcap'
            except core.HarnessError:
                raise
            except Exception as e:
                r.status = 'raised'
                r.exc = e
            r.seq_at_return = fs.seq
            if on_return is not None:
                on_return(r)
            r.drain_steps = sched.drain() if drain else 0
        finally:
            if preempt is not None:
                sys.settrace(None)
            core.SimQueue.cap_override = None
            try:
                core.end()
            except core.HarnessError as e:
                r.harness_error = str(e)
        if sched.harness_error:
            raise core.HarnessError(sched.harness_error)
    return r


reset_library_state()          # first call: takes the snapshot of the library's import-time state
core.install_thread_guard()    # a thread the simulator does not control, started during a run = harness error
