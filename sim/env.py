"""Binds the simulator to the seams of seismic_zfp (module-level names) for the duration of a run."""
import gc
import os
import sys
import types
import warnings

REPO = os.path.realpath(os.environ.get('VERIF_REPO', '/repo'))
if sys.path[0] != REPO:
    sys.path.insert(0, REPO)

warnings.filterwarnings('ignore')

import threading as _threading
import queue as _queue
import concurrent.futures as _cf

from . import core, storage

import seismic_zfp                                     # noqa: E402
import seismic_zfp.conversion_utils as m_cu            # noqa: E402
import seismic_zfp.conversion as m_conv                # noqa: E402
import seismic_zfp.cropping as m_crop                  # noqa: E402
import seismic_zfp.read as m_read                      # noqa: E402
import seismic_zfp.loader as m_loader                  # noqa: E402
import seismic_zfp.utils as m_utils                    # noqa: E402

if not os.path.realpath(seismic_zfp.__file__).startswith(REPO + os.sep):
    print(f'HARNESS-ERROR seismic_zfp imported from {seismic_zfp.__file__}, expected under {REPO}')
    sys.exit(3)

STUB_VERSION = '0.4.1'


class _Dist:
    def __init__(self, v):
        self.version = v


class VersionStub:
    """Stands in for pkg_resources inside conversion_utils: the sandbox's development install has a
    version string the writer cannot parse, so every conversion would abort before writing."""

    def __init__(self, version=STUB_VERSION):
        self._v = version

    def get_distribution(self, name):
        return _Dist(self._v)


class _VMem:
    def __init__(self, total):
        self.total = total
        self.available = total


class PsutilShim:
    def __init__(self, mem_total, cpu):
        self._mem = mem_total
        self._cpu = cpu

    def virtual_memory(self):
        return _VMem(self._mem)

    def cpu_count(self, logical=True):
        return self._cpu

    def __getattr__(self, name):
        raise core.HarnessError(f'unsupported stub API psutil.{name}')


class VClock:
    """time module stand-in: reads the scheduler's virtual clock."""
    BASE = 1.7e9

    def time(self):
        s = core.current()
        return self.BASE + (s.clock if s is not None else 0.0)

    def monotonic(self):
        return self.time() - self.BASE

    perf_counter = monotonic

    def sleep(self, d):
        s = core.current()
        if s is not None:
            s.yield_point('sleep', pred=lambda: False, timeout=max(0.0, d))

    def __getattr__(self, name):
        import time as _t
        return getattr(_t, name)


class _PathShim:
    def __init__(self, fs):
        self._fs = fs

    def exists(self, p):
        if isinstance(p, str) and p.startswith(storage.PREFIX):
            return self._fs.exists(p)
        return os.path.exists(p)

    def isfile(self, p):
        if isinstance(p, str) and p.startswith(storage.PREFIX):
            return self._fs.exists(p)
        return os.path.isfile(p)

    def getsize(self, p):
        if isinstance(p, str) and p.startswith(storage.PREFIX):
            return len(self._fs.files[p])
        return os.path.getsize(p)

    def __getattr__(self, name):
        return getattr(os.path, name)


class OsShim:
    def __init__(self, fs):
        self._fs = fs
        self.path = _PathShim(fs)

    def remove(self, p):
        if isinstance(p, str) and p.startswith(storage.PREFIX):
            self._fs.files.pop(p)
            return
        return os.remove(p)

    unlink = remove

    def __getattr__(self, name):
        return getattr(os, name)


class _Null:
    def write(self, s):
        return len(s)

    def flush(self):
        pass

    def isatty(self):
        return False


_NULL = _Null()


def clear_loader_caches():
    """The eight class-level lru_caches of the loaders are process-global state."""
    for cls in (m_loader.SgzLoader3d, m_loader.SgzLoader2d):
        for name in dir(cls):
            a = getattr(cls, name, None)
            if hasattr(a, 'cache_clear'):
                a.cache_clear()


class SimEnv:
    def __init__(self, fs, mem_total=64 << 30, cpu_count=4, version=STUB_VERSION, quiet=True):
        self.fs = fs
        self.mem_total = mem_total
        self.cpu_count = cpu_count
        self.version = version
        self.quiet = quiet
        self._saved = []

    def _set(self, mod, name, value):
        self._saved.append((mod, name, getattr(mod, name, _MISSING)))
        setattr(mod, name, value)

    def __enter__(self):
        fs = self.fs
        ps = PsutilShim(self.mem_total, self.cpu_count)
        clock = VClock()
        osshim = OsShim(fs)
        simcf = core.SimCF()
        self._set(m_cu, 'Thread', core.SimThread)
        self._set(m_cu, 'Queue', core.SimQueue)
        self._set(m_cu, 'pkg_resources', VersionStub(self.version))
        self._set(m_cu, 'time', clock)
        self._set(m_cu, 'open', fs.open)
        self._set(m_conv, 'open', fs.open)
        self._set(m_conv, 'os', osshim)
        self._set(m_conv, 'psutil', ps)
        self._set(m_conv, 'time', clock)
        self._set(m_crop, 'open', fs.open)
        self._set(m_read, 'open', fs.open)
        self._set(m_read, 'os', osshim)
        self._set(m_loader, 'cf', simcf)
        self._set(m_loader, 'psutil', ps)
        self._set(m_utils, 'time', clock)
        # belt and braces: a change that reaches for the stdlib names directly is simulated too
        self._set(_threading, 'Thread', core.SimThread)
        self._set(_queue, 'Queue', core.SimQueue)
        self._set(_cf, 'ThreadPoolExecutor', core.SimExecutor)
        if self.quiet:
            self._saved.append((sys, 'stdout', sys.stdout))
            sys.stdout = _NULL
        self._gc = gc.isenabled()
        gc.disable()
        return self

    def __exit__(self, *exc):
        for mod, name, old in reversed(self._saved):
            if old is _MISSING:
                delattr(mod, name)
            else:
                setattr(mod, name, old)
        self._saved = []
        if self._gc:
            gc.enable()
        return False


_MISSING = object()


class RunResult:
    __slots__ = ('status', 'value', 'exc', 'sched', 'drain_steps', 'seq_at_return', 'harness_error', 'at_return')


def run_sim(fn, fs, chooser, step_cap=5000, mem_total=64 << 30, cpu_count=4, queue_cap=None, drain=True,
            on_return=None):
    """Runs fn() as the main simulated thread.  status: ok | raised | deadlock | stepcap."""
    r = RunResult()
    r.value = None
    r.exc = None
    r.harness_error = None
    core.SimQueue.cap_override = queue_cap
    with SimEnv(fs, mem_total=mem_total, cpu_count=cpu_count):
        sched = core.begin(chooser, step_cap)
        r.sched = sched
        try:
            try:
                r.value = fn()
                r.status = 'ok'
            except core.SimDeadlock:
                r.status = 'deadlock'
            except core.SimStepCap:
                r.status = 'stepcap'
            except core.HarnessError:
                raise
            except Exception as e:
                r.status = 'raised'
                r.exc = e
            r.seq_at_return = fs.seq
            if on_return is not None:
                on_return(r)
            r.drain_steps = sched.drain() if drain else 0
        finally:
            core.SimQueue.cap_override = None
            try:
                core.end()
            except core.HarnessError as e:
                r.harness_error = str(e)
        if sched.harness_error:
            raise core.HarnessError(sched.harness_error)
    return r
