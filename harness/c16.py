"""C16 — writer pipeline: output independent of thread interleaving; always completes.

Seeded schedules of the real pipeline code (producer = calling thread, compressor thread, writer
thread, two bounded queues, one shared output handle) on simulated threads / queues / files.
Oracles (DESIGN.md 3.1): 1 termination, 2 byte identity with the sequential reference image at the
instant run() returns, 3 append-only stream on the main handle equal to the reference stream,
4 nothing reaches the file after run() returned.
"""
import collections
import os
import random
import shutil
import sys
import tempfile
import time

from sim import core, storage, env
from . import common, workloads

PID = 'C16'
OUT = storage.PREFIX + 'out.sgz'

ASSUMPTIONS = [
    'scheduling granularity = queue put/get/task_done/join, thread start, pool ops and write/flush/seek/close on '
    'the output handle; code between two such points runs atomically',
    f'library version reported to the writer is stubbed to {env.STUB_VERSION} (the sandbox install string does not parse)',
    'SEG-Y inputs are real files read by segyio (C) outside the seam; zfpy (C) and numpy run for real',
    'CPython io.BufferedWriter/BufferedRandom run for real over a logged raw file object',
    'a clean batch is evidence over the sampled schedules, not a proof over all schedules',
]


# --------------------------------------------------------------------------------------------
# one simulated conversion + oracles
# --------------------------------------------------------------------------------------------

# a third of the runs pre-empt at source-line level: uniformly per line (three rates), or mostly on the first lines
# that follow an intercepted operation ('post': (rate elsewhere, rate on those lines))
PREEMPT_CHOICES = [0, 0, 0, 0, 0, 0, 0, 0, (0.002, 0.3), 0.003, 0.02, 0.1]


OUT2 = storage.PREFIX + 'out2.sgz'


def simulate(spec, cap, buf, chooser, step_cap, preempt=None, second=None):
    """second: another logical input converted right afterwards in the same process (to OUT2): whatever the first
    conversion leaves behind - threads, module-level state - is there when the second one runs."""
    fs = storage.SimFS(bufsize=buf)
    fn = workloads.converter_fn(spec, OUT)
    if second is not None:
        fn1, fn2 = fn, workloads.converter_fn(second, OUT2)

        def fn():
            if spec.get('fail_from') is not None:
                try:
                    fn1()             # its source fails half way: the conversion is expected to raise
                except core.SimAbort:
                    raise
                except core.HarnessError:
                    raise
                except Exception:
                    pass
            else:
                fn1()
            fn2()
    if spec['route'] == 'numpy':
        qcap, mem = cap, 64 << 30
    else:
        qcap, mem = None, workloads.mem_for_cap(spec, cap)
        if second is not None and second['route'] != 'numpy':
            mem = max(mem, workloads.mem_for_cap(second, cap))

    def on_return(r):
        r.at_return = fs.image(OUT) if fs.exists(OUT) else None
        if second is not None:
            r.at_return = (r.at_return, fs.image(OUT2) if fs.exists(OUT2) else None)
    r = env.run_sim(fn, fs, chooser, step_cap=step_cap, mem_total=mem, queue_cap=qcap, on_return=on_return,
                    preempt=tuple(preempt) if preempt else None)
    return fs, r


def main_stream(fs):
    """Bytes written through 'wb' handles in API order + whether every write was an append."""
    total = {}
    parts = []
    append_only = True
    nwrites = 0
    for (_, path, hid, mode, op, off, ln, data, th) in fs.apilog:
        if not mode.startswith('w'):       # every handle opened for writing from scratch, on any path
            continue
        if op == 'write':
            nwrites += 1
            if off != total.get(hid, 0):
                append_only = False
            parts.append(data)
            total[hid] = total.get(hid, 0) + ln
        elif op == 'seek':
            append_only = False
    return b''.join(parts), append_only, nwrites


def readback_problem(image):
    """The structural half of C16's statement, checked on the sequential reference image (every other run is compared
    with it byte for byte): header first, then all the data blocks the header states, then all the footer arrays it
    states - nothing missing, and the library's own reader reads samples and header arrays back without complaint.
    Returns a description or None."""
    from model import layout as lmodel
    from . import readers
    try:
        L = lmodel.Layout(image[:8192])
    except Exception as e:
        return f'header does not parse ({type(e).__name__})'
    want = L.data_end + L.n_arrays * L.hdr_stride
    if len(image) < want:
        # (longer is not judged: the NumPy converter writes caller-supplied header arrays in their own integer
        # width, which is C03 / C04's business)
        return (f'file is {len(image)} bytes long; its own header states {L.n_header_blocks} header blocks + '
                f'{L.data_blocks} data blocks + {L.n_arrays} footer arrays of {L.hdr_stride} bytes = {want}')
    fs = storage.SimFS()
    fs.add_file(readers.FPATH, image)
    out = {}

    def fn():
        from seismic_zfp.read import SgzReader
        with SgzReader(readers.FPATH) as rd:
            if rd.is_2d:
                rd.read_subplane(0, rd.tracecount, 0, rd.n_samples)
            else:
                rd.read_volume()
            rd.read_variant_headers()
    r = env.run_sim(fn, fs, core.SeqChooser(), step_cap=10 ** 6)
    readers.clear_caches()
    if r.status != 'ok':
        return f'the library\'s reader cannot read the file back: {r.status} {type(r.exc).__name__}: {str(r.exc)[:100]}'
    return None


def reference(spec):
    """Sequential schedule, capacity 16, 4096-byte buffer: independent of every environment knob."""
    fs, r = simulate(spec, 16, 4096, core.SeqChooser(), 100000)
    if r.status in ('deadlock', 'stepcap'):
        sig, what = judge(spec, None, fs, r)
        return {'failed': {'spec': {k: v for k, v in spec.items() if k != 'src'}, 'cap': 16, 'buf': 4096, 'policy': 'seq',
                           'preempt': None, 'trace': list(r.sched.trace), 'signature': sig,
                           'what': what + ' (under the strictly sequential schedule)',
                           'events': compact_trace(r.sched.events, 400)}}
    if r.status != 'ok':
        return None
    stream, append_only, _ = main_stream(fs)
    bad = readback_problem(fs.image(OUT))
    if bad:
        return {'failed': {'spec': {k: v for k, v in spec.items() if k != 'src'}, 'cap': 16, 'buf': 4096, 'policy': 'seq',
                           'preempt': None, 'trace': list(r.sched.trace), 'signature': 'oracle5:structure',
                           'what': 'output of the strictly sequential run: ' + bad,
                           'events': compact_trace(r.sched.events, 400)}}
    return {'image': fs.image(OUT), 'stream': stream, 'steps': r.sched.steps,
            'trace_digest': r.sched.trace_digest(), 'append_only': append_only,
            'items': sum(1 for e in r.sched.events if e[2] == 'q.put' and e[3] == ('q-1',))}


def judge(spec, ref, fs, r, ref2=None):
    """Returns (signature or None, description).  ref2: reference of the second conversion of a two-conversion run."""
    if r.status == 'deadlock':
        parked = [f'{t.name}@{t.pending}' for t in r.sched.threads if t.state != 'done']
        return 'oracle1:deadlock', 'no thread runnable before run() returned: ' + ' '.join(parked)
    if r.status == 'stepcap':
        return 'oracle1:stepcap', f'step cap {r.sched.step_cap} exceeded'
    if r.status == 'raised':
        return f'oracle2:raised:{type(r.exc).__name__}', f'run() raised {type(r.exc).__name__}: {str(r.exc)[:120]}'
    img = r.at_return
    img2 = None
    if ref2 is not None:
        img, img2 = img
    first_failed = spec.get('fail_from') is not None
    for which, im, rf in (('', img, None if first_failed else ref), (' (second conversion in the same process)', img2, ref2)):
        if rf is None:
            continue
        if im is None:
            return 'oracle2:bytes', 'no output file when run() returned' + which
        if im != rf['image']:
            n = min(len(im), len(rf['image']))
            first = next((i for i in range(n) if im[i] != rf['image'][i]), n)
            return 'oracle2:bytes', (f'file at return differs from sequential reference: len {len(im)} vs '
                                     f'{len(rf["image"])}, first difference at byte {first}' + which)
    late = [e for e in fs.apilog if e[0] > r.seq_at_return and e[4] in ('write', 'flush', 'seek', 'truncate', 'write-closed', 'flush-closed')]
    late_os = [e for e in fs.oslog if e[0] > r.seq_at_return]
    if first_failed:
        # what the threads of the aborted conversion still try on *its* (closed) file is not the second call's doing
        late = [e for e in late if e[1] != OUT]
        late_os = [e for e in late_os if e[1] != OUT]
    if late or late_os or (not first_failed and fs.image(OUT) != ref['image']) or \
            (ref2 is not None and fs.image(OUT2) != ref2['image']):
        what = [(e[4], e[5], e[6], e[8]) for e in late][:3] + [('os', e[3], e[4], len(e[5]), e[6]) for e in late_os][:3]
        return 'oracle4:late_write', f'file touched after run() returned: {what}'
    if first_failed:
        return None, ''
    stream, append_only, _ = main_stream(fs)
    if ref['append_only'] and (ref2 is None or ref2['append_only']) and not append_only:
        return 'oracle3:not_append_only', 'main handle was not written strictly front to back'
    if stream != ref['stream'] + (ref2['stream'] if ref2 is not None else b''):
        return 'oracle3:stream', 'byte stream on the main handle differs from the reference stream'
    return None, ''


def probes_of(spec, cap, r):
    s = r.sched
    p = {}
    c = s.counters
    if c.get('put_blocked_full:q-1'):
        p['producer_blocked_on_full_queue'] = 1
    if c.get('put_blocked_full:q-2'):
        p['compressor_blocked_on_full_writing_queue'] = 1
    if max(s.nrunnable or [0]) >= 3:
        p['three_threads_runnable_at_once'] = 1
    qs = getattr(s, 'queues', [])
    if len(qs) >= 2 and qs[0].max_depth >= 2 and qs[1].max_depth >= 2:
        p['two_items_in_flight_in_both_queues'] = 1
    first_writer = next((i for i, e in enumerate(s.events) if e[1].startswith('writer')), None)
    last_put = max((i for i, e in enumerate(s.events) if e[1] == 'main' and e[2] == 'q.put'), default=None)
    if first_writer is not None and last_put is not None and first_writer > last_put:
        p['writer_first_ran_after_last_put'] = 1
    first_comp = next((i for i, e in enumerate(s.events) if e[1].startswith('compressor')), None)
    if first_comp is not None and last_put is not None and first_comp > last_put:
        p['compressor_first_ran_after_last_put'] = 1
    full = workloads.resolve_blockshape(spec['bits'], spec['blockshape'])
    if (spec['route'] == 'segy_2d' and full[1] != 4) or (spec['route'] != 'segy_2d' and full[0] != 4):
        p['per_block_mode'] = 1
    p['route:' + spec['route']] = 1
    if spec.get('window'):
        p['windowed_conversion'] = 1
    if isinstance(getattr(r, 'at_return', None), tuple):
        p['two_conversions_in_one_process'] = 1
        if spec.get('fail_from') is not None:
            p['first_of_two_conversions_aborted_by_its_source'] = 1
    p[f'cap:{cap}'] = 1
    if s.uncaught:
        p['thread_died_with_exception'] = 1
    if s.counters.get('preemptions'):
        p['line_level_preemption'] = 1
    if len(qs) >= 1 and qs[0].maxsize != cap:
        p['capacity_differs_from_requested'] = 1
    return p


def compact_trace(events, limit=80):
    ab = {'main': 'M'}
    out = []
    for e in events[:limit]:
        name = e[1]
        a = ab.get(name) or name[0].upper()
        out.append(f'{a}:{e[2]}')
    return ' '.join(out) + (' ...' if len(events) > limit else '')


# --------------------------------------------------------------------------------------------
# pool of logical inputs
# --------------------------------------------------------------------------------------------

def plain_run(spec, scratch):
    """Faithfulness gate: the same conversion with nothing simulated (real threads, real file); only
    the version stub is in place."""
    from seismic_zfp import conversion_utils as m_cu
    out = os.path.join(scratch, f"plain_{spec['id']}.sgz")
    saved = m_cu.pkg_resources
    m_cu.pkg_resources = env.VersionStub()
    so = sys.stdout
    sys.stdout = env._NULL
    env.reset_library_state()          # (a fresh process: nothing a simulated run created lazily may linger)
    try:
        workloads.converter_fn(spec, out)()
    finally:
        sys.stdout = so
        m_cu.pkg_resources = saved
        env.reset_library_state()
    with open(out, 'rb') as f:
        data = f.read()
    os.remove(out)
    return data


def build_pool(seed, n, scratch, gate=True):
    rng = core.stream(seed, 'pool', 'workload')
    pool = []
    rejected = 0
    failed = build_pool.failed = []
    idx = 0
    forced = list(workloads.ROUTES)
    while len(pool) < n and idx < 4 * n:
        route = forced[idx] if idx < len(forced) else None
        spec = workloads.gen_spec(rng, idx, route=route)
        if idx == len(forced):
            # one large input: each of its two plane sets is 6.5 MiB of samples, 3.3 MiB compressed (code that
            # treats large blocks differently is not met by the small cubes)
            spec = {'id': idx, 'route': 'numpy', 'data_seed': 77, 'shape': [8, 400, 1024], 'bits': 16,
                    'blockshape': [4, 4, -1]}
        if idx == len(forced) + 1:
            # dead traces at the end of the survey and no footer: the file ends with blocks of all-zero bytes
            spec = {'id': idx, 'route': 'segy', 'data_seed': 78, 'shape': [11, 6, 40], 'bits': 4, 'blockshape': [4, 4, -1],
                    'fmt': 1, 'il0': 1, 'xl0': 1, 'il_step': 1, 'xl_step': 1, 'detection': 'strip', 'dead': 'tail'}
        idx += 1
        try:
            workloads.materialise(spec, scratch)
            ref = reference(spec)
        except core.HarnessError:
            raise
        except Exception:
            ref = None
        if ref is None:
            rejected += 1      # the sequential reference itself rejects it: trivial, skipped
            continue
        if 'failed' in ref:
            failed.append((spec['id'], ref['failed']))     # the reference schedule itself never returns
            continue
        if gate:
            # a mismatch is either a stub that misrepresents the real thing or a real race in the
            # tree under test; it is resolved in _main once the simulated runs are in
            ref['gate_ok'] = plain_run(spec, scratch) == ref['image']
        pool.append((spec, ref))
    return pool, rejected


# --------------------------------------------------------------------------------------------
# worker
# --------------------------------------------------------------------------------------------

def one_run(ctx, run):
    seed, pool = ctx['seed'], ctx['pool']
    wl = core.stream(seed, run, 'workload')
    spec, ref = pool[wl.randrange(len(pool))]
    cap, buf, policy = workloads.run_knobs(wl, spec)
    pre_p = wl.choice(PREEMPT_CHOICES)
    if isinstance(pre_p, tuple):
        preempt = [pre_p[0], f'{seed}:{run}', pre_p[1]]
    else:
        preempt = [pre_p, f'{seed}:{run}'] if pre_p else None
    spec2 = ref2 = None
    if wl.random() < 0.1:
        # two conversions one after the other in one process
        spec2, ref2 = pool[wl.randrange(len(pool))]
        full = workloads.resolve_blockshape(spec['bits'], spec['blockshape'])
        if spec['route'] == 'numpy' and spec['shape'][0] > full[0] and wl.random() < 0.4:
            # the first conversion is aborted by its source failing from the second plane set on; the second,
            # healthy one must come out as if nothing had happened before
            spec = dict(spec, fail_from=full[0] * wl.randint(1, (spec['shape'][0] - 1) // full[0]))
    steps = ref['steps'] + (ref2['steps'] if ref2 else 0)
    chooser = core.make_chooser(policy, core.stream(seed, run, 'schedule'), est_steps=steps)
    step_cap = 10 * steps + 400
    fs, r = simulate(spec, cap, buf, chooser, step_cap, preempt, second=spec2)
    sig, what = judge(spec, ref, fs, r, ref2)
    s = r.sched
    rec = {
        'run': run, 'li': spec['id'] if spec2 is None else (spec['id'], spec2['id']), 'cap': cap, 'buf': buf, 'policy': policy, 'status': r.status,
        'steps': s.steps, 'td': s.trace_digest(), 'ed': s.digest(),
        'differs': spec2 is not None or s.trace_digest() != ref['trace_digest'],
        'probes': probes_of(spec, cap, r), 'sig': sig, 'multi': sum(1 for k in s.nrunnable if k > 1),
        'pre': s.counters.get('preemptions', 0),
        'simtime': s.clock,
    }
    if ctx.get('keep_sample') and run % 97 == 0:
        rec['sample'] = compact_trace(s.events)
    if sig:
        rec['violation'] = {'spec': {k: v for k, v in spec.items() if k != 'src'}, 'cap': cap, 'buf': buf,
                            'second': ({k: v for k, v in spec2.items() if k != 'src'} if spec2 else None),
                            'policy': policy, 'preempt': preempt, 'trace': list(s.trace), 'signature': sig, 'what': what,
                            'events': compact_trace(s.events, 400)}
    return rec


# --------------------------------------------------------------------------------------------
# replay / minimisation
# --------------------------------------------------------------------------------------------

def replay_doc(doc, scratch, ref=None):
    spec = dict(doc['spec'])
    workloads.materialise(spec, scratch)
    if ref is None:
        ref = reference({k: v for k, v in spec.items() if k != 'fail_from'})
        if ref is None:
            raise common.HarnessFailure('reference run of the replayed input failed')
    if 'failed' in ref and ref['failed']['signature'] == 'oracle5:structure':
        class _R:            # the finding is about the reference run itself
            pass
        r = _R()
        r.sched = _R()
        r.sched.events = []
        return ref['failed']['signature'], ref['failed']['what'], r, ref
    chooser = core.ReplayChooser(doc['trace'])
    steps = ref.get('steps', 10000)
    spec2 = ref2 = None
    if doc.get('second'):
        spec2 = dict(doc['second'])
        workloads.materialise(spec2, scratch)
        ref2 = reference(spec2)
        if ref2 is None or 'image' not in ref2:
            raise common.HarnessFailure('reference run of the second replayed input failed')
        steps += ref2['steps']
    fs, r = simulate(spec, doc['cap'], doc['buf'], chooser, 10 * steps + 400, doc.get('preempt'), second=spec2)
    if 'image' not in ref and r.status == 'ok':
        return None, '', r, ref           # recorded against a reference run that did not terminate
    sig, what = judge(spec, ref, fs, r, ref2)
    if doc.get('policy') == 'seq' and sig:
        what += ' (under the strictly sequential schedule)'
    return sig, what, r, ref


def minimise(doc, scratch):
    spec = dict(doc['spec'])
    workloads.materialise(spec, scratch)
    ref = reference({k: v for k, v in spec.items() if k != 'fail_from'})
    want = doc['signature']
    # express the trace as deviations from the default (sequential) choice: None = default
    def test(trace):
        d = dict(doc)
        d['trace'] = trace
        try:
            sig, _, _, _ = replay_doc(d, scratch, ref)
        except Exception:
            return False
        return sig == want
    trace = list(doc['trace'])
    if not test(trace):
        return doc, False
    small = common.minimise_positions(trace, None, test, max_tests=200)
    while small and small[-1] is None:
        small.pop()
    d = dict(doc)
    d['trace'] = small
    sig, what, r, _ = replay_doc(d, scratch, ref)
    d['what'] = what
    d['events'] = compact_trace(r.sched.events, 400)
    d['deviations'] = sum(1 for v in small if v is not None)
    return d, True


def cmd_replay(path):
    import json
    doc = json.load(open(path))
    scratch = tempfile.mkdtemp(prefix='verif_c16_')
    try:
        sig, what, r, _ = replay_doc(doc, scratch)
    finally:
        shutil.rmtree(scratch, ignore_errors=True)
    if sig == doc['signature']:
        print(f'VIOLATION property={PID} replay={path}')
        print(f'  signature={sig} :: {what}')
        print('  events: ' + compact_trace(r.sched.events, 400))
        return 1
    print(f'replay did not reproduce: expected {doc["signature"]}, got {sig}')
    return 0 if sig is None else 1


# --------------------------------------------------------------------------------------------
# main
# --------------------------------------------------------------------------------------------

def determinism_selftest(ctx, runs):
    """Same (seed, run) twice in this process after other runs: digests must agree."""
    first = {run: one_run(ctx, run)['ed'] for run in runs}
    for run in reversed(runs):
        if one_run(ctx, run)['ed'] != first[run]:
            return run
    return None


def main(tier, seed):
    t0 = time.time()
    scratch = tempfile.mkdtemp(prefix='verif_c16_')
    try:
        return _main(tier, seed, scratch, t0)
    finally:
        shutil.rmtree(scratch, ignore_errors=True)


def _main(tier, seed, scratch, t0):
    quick = tier == 'quick'
    n_pool = 28 if quick else 160
    pool, rejected = build_pool(seed, n_pool, scratch)
    ref_failed = list(build_pool.failed)
    if not pool and not ref_failed:
        common.harness_exit('the sequential reference run rejects every logical input: nothing to vouch for')
    if not pool:
        # every input already fails to terminate under the reference schedule: report and stop
        known = common.load_known(PID)
        sig = ref_failed[0][1]['signature']
        doc = dict(ref_failed[0][1], property=PID, seed=seed, run='reference', occurrences=len(ref_failed))
        path = common.write_replay(PID, seed, 'reference', doc)
        coverage = {'evaluations': len(ref_failed), 'distinct_nontrivial': 0,
                    'rule': 'no simulated run beyond the reference schedule: it does not terminate for any input',
                    'samples': [doc['events'][:600]]}
        common.write_evidence(PID, tier, seed, 'exploration', coverage, ASSUMPTIONS, time.time() - t0, 1)
        return common.conclude(PID, [{'signature': sig, 'replay': path, 'what': doc['what']}], known)
    ctx = {'seed': seed, 'pool': pool, 'keep_sample': True}
    bad = determinism_selftest(ctx, list(range(10 ** 6, 10 ** 6 + (12 if quick else 60))))
    if bad is not None:
        common.harness_exit(f'nondeterminism: run {bad} of seed {seed} gave two different event logs')
    t_pool = time.time() - t0
    if quick:
        n_runs = int(os.environ.get('VERIF_RUNS', '16000'))
        deadline = time.time() + common.budget_s(150)
    else:
        n_runs = int(os.environ.get('VERIF_RUNS', '4000000'))
        deadline = time.time() + common.budget_s(900)
    results, skipped, _ = common.run_parallel(one_run, ctx, range(n_runs), deadline=deadline, chunk=50)

    # ---- aggregate
    evaluations = len(results)
    traces = collections.Counter()
    nontrivial = set()
    probes = collections.Counter()
    knobs = collections.Counter()
    samples = []
    viols = {}
    simtime = 0.0
    steps = 0
    preemptions = 0
    for run, rec in results:
        traces[(rec['li'], rec['td'])] += 1
        if rec['differs']:
            nontrivial.add((rec['li'], rec['td']))
        for k in rec['probes']:
            probes[k] += 1
        knobs[f"policy:{rec['policy']}"] += 1
        knobs[f"buf:{rec['buf']}"] += 1
        simtime += rec['simtime']
        steps += rec['steps']
        preemptions += rec.get('pre', 0)
        if 'sample' in rec and len(samples) < 4:
            samples.append({'run': run, 'input': pool_desc(pool, rec['li']), 'cap': rec['cap'], 'buf': rec['buf'],
                            'policy': rec['policy'], 'trace': rec['sample']})
        if rec['sig']:
            viols.setdefault(rec['sig'], []).append((run, rec['violation']))
    for li, doc in ref_failed:
        viols.setdefault(doc['signature'], []).append(('reference-%d' % li, doc))
    singletons = sum(1 for v in traces.values() if v == 1)
    expected = ['producer_blocked_on_full_queue', 'compressor_blocked_on_full_writing_queue',
                'three_threads_runnable_at_once', 'two_items_in_flight_in_both_queues',
                'writer_first_ran_after_last_put', 'compressor_first_ran_after_last_put', 'per_block_mode',
                'line_level_preemption', 'two_conversions_in_one_process',
                'first_of_two_conversions_aborted_by_its_source'] + \
               ['route:' + r for r in workloads.ROUTES] + [f'cap:{c}' for c in workloads.CAPS]
    unreached = [p for p in expected if not probes.get(p)]

    # ---- violations: minimise one per signature, write replay files
    known = common.load_known(PID)
    reported = []
    for sig, lst in sorted(viols.items()):
        run, doc = min(lst, key=lambda x: len(x[1]['trace']))
        doc = dict(doc, property=PID, seed=seed, run=run, occurrences=len(lst))
        if sig not in known and doc.get('policy') != 'seq':
            try:
                doc, ok = minimise(doc, scratch)
                doc['minimised'] = ok
            except Exception as e:
                doc['minimised'] = False
                doc['minimise_error'] = repr(e)
        path = common.write_replay(PID, seed, run, doc)
        reported.append({'signature': sig, 'replay': path, 'what': doc['what']})

    wall = time.time() - t0
    coverage = {
        'evaluations': evaluations,
        'distinct_nontrivial': len(nontrivial),
        'rule': 'one evaluation = one simulated conversion (logical input x queue capacity x write-buffer size x '
                'scheduler policy x seeded schedule); distinct = distinct (logical input, sequence of (thread, '
                'operation) events); non-trivial = that sequence differs from the sequential reference schedule of '
                'the same input',
        'samples': samples or [{'note': 'no sample kept'}],
        'distinct_interleavings': len(traces),
        'good_turing_unseen': round(singletons / max(1, evaluations), 4),
        'logical_inputs': len(pool),
        'logical_inputs_rejected_by_reference_run': rejected,
        'runs_skipped_for_budget': len(skipped),
        'decision_points_total': steps,
        'line_level_preemptions_total': preemptions,
        'runs_per_hour': int(evaluations / max(1e-9, wall - t_pool) * 3600),
        'simulated_time_s': round(simtime, 3),
        'fault_counts': {'none': 'C16 quantifies over schedules and capacities only; no fault is injected'},
        'probes': dict(sorted(probes.items())),
        'unreached': unreached,
        'knob_histogram': dict(sorted(knobs.items())),
        'determinism_selftest': {'runs_repeated_in_process': 12 if quick else 60, 'mismatches': 0},
        'faithfulness_gate': f"{sum(1 for _, r in pool if r.get('gate_ok'))} of {len(pool)} reference images equal to "
                             f"un-simulated conversions (real threads, real files)",
        'components_real': ['seismic_zfp (all modules)', 'zfpy', 'numpy', 'segyio on real scratch SEG-Y files',
                            'io.BufferedWriter/BufferedRandom'],
        'components_stubbed': ['threading.Thread -> SimThread', 'queue.Queue -> SimQueue', 'open -> SimFS',
                               'psutil (memory size, cpu count)', 'time.time -> virtual clock',
                               'pkg_resources version -> ' + env.STUB_VERSION],
        'known_findings_matched': sorted(s for s in viols if s in known),
    }
    common.write_evidence(PID, tier, seed, 'exploration', coverage, ASSUMPTIONS, wall,
                          sum(1 for v in reported if v['signature'] not in known))
    code = common.conclude(PID, reported, known)
    gate_bad = [spec['id'] for spec, ref in pool if not ref.get('gate_ok', True)]
    if gate_bad and code == 0:
        common.harness_exit(f'simulation not faithful: the un-simulated conversion of logical inputs {gate_bad} '
                            f'differs from the simulated reference image and no simulated schedule explains it')
    print(f'{PID} {tier}: {evaluations} simulated conversions, {len(traces)} distinct interleavings '
          f'({len(nontrivial)} non-trivial), {len(pool)} logical inputs, unreached probes: {unreached}, '
          f'{wall:.0f}s, exit {code}')
    return code


def pool_desc(pool, li):
    if isinstance(li, (tuple, list)):
        return [pool_desc(pool, x) for x in li]
    for spec, _ in pool:
        if spec['id'] == li:
            return {k: v for k, v in spec.items() if k not in ('src', 'drop', 'id', 'data_seed')}
    return {}


def selftest_digests(seed, n, scratch):
    pool, _ = build_pool(seed, 10, scratch, gate=False)
    ctx = {'seed': seed, 'pool': pool}
    results, _, _ = common.run_parallel(lambda c, run: one_run(c, run)['ed'], ctx, range(n), chunk=7)
    return [d for _, d in sorted(results)]
