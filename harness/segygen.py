"""Real SEG-Y inputs (segyio does its own FILE* I/O, so these cannot live in SimFS)."""
import numpy as np
import segyio


def cube_data(shape, seed, dead=None):
    """Seeded smooth + noise float32 cube, finite, deterministic for (shape, seed).  dead = 'tail' / 'head': the last /
    first lines (enough to fill whole compression blocks) are dead traces, all zero: their compressed image is all
    zero bytes."""
    rs = np.random.RandomState(seed % (2 ** 31))
    n_il, n_xl, n_s = shape
    i = np.arange(n_il, dtype=np.float32)[:, None, None]
    x = np.arange(n_xl, dtype=np.float32)[None, :, None]
    s = np.arange(n_s, dtype=np.float32)[None, None, :]
    a = np.sin(0.3 * i + 0.2 * x + 0.15 * s) * 100.0 + np.cos(0.05 * s * (1 + 0.1 * i)) * 30.0
    a = a + rs.standard_normal(shape).astype(np.float32) * 5.0
    a = np.ascontiguousarray(a.astype(np.float32))
    if dead:
        n = min(n_il - 1, max(4, n_il // 2)) if n_il > 1 else 0
        if n_il == 1:                       # a 2D section: dead traces along the second axis
            k = max(1, n_xl // 2)
            if dead == 'tail':
                a[:, n_xl - k:, :] = 0
            else:
                a[:, :k, :] = 0
        elif dead == 'tail':
            a[n_il - n:, :, :] = 0
        else:
            a[:n, :, :] = 0
    return a


def _fill_header(h, il, xl, k, n_s, dt_us):
    h.update({
        segyio.TraceField.TRACE_SEQUENCE_LINE: k + 1,
        segyio.TraceField.TRACE_SEQUENCE_FILE: k + 1,
        segyio.TraceField.FieldRecord: 7,
        segyio.TraceField.INLINE_3D: il,
        segyio.TraceField.CROSSLINE_3D: xl,
        segyio.TraceField.CDP_X: 100000 + 25 * il + 3 * xl,
        segyio.TraceField.CDP_Y: 200000 + 7 * il - 25 * xl,
        segyio.TraceField.SourceX: 100000 + 25 * il + 3 * xl,
        segyio.TraceField.SourceY: 200000 + 7 * il - 25 * xl,
        segyio.TraceField.offset: 1,
        segyio.TraceField.TRACE_SAMPLE_COUNT: n_s,
        segyio.TraceField.TRACE_SAMPLE_INTERVAL: dt_us,
        segyio.TraceField.SourceGroupScalar: -100,
    })


def make_segy_3d(path, shape, seed, fmt=1, il0=1, xl0=20, il_step=1, xl_step=1, dt_us=4000, drop=None, dead=None):
    """Regular (drop=None) or irregular (drop = set of (i, x) ordinals to leave out) 3D SEG-Y."""
    n_il, n_xl, n_s = shape
    data = cube_data(shape, seed, dead)
    ilines = [il0 + il_step * i for i in range(n_il)]
    xlines = [xl0 + xl_step * x for x in range(n_xl)]
    spec = segyio.spec()
    spec.format = fmt
    spec.samples = [float(dt_us / 1000.0 * k) for k in range(n_s)]
    if drop:
        keep = [(i, x) for i in range(n_il) for x in range(n_xl) if (i, x) not in drop]
        spec.tracecount = len(keep)
    else:
        keep = [(i, x) for i in range(n_il) for x in range(n_xl)]
        spec.sorting = 2
        spec.ilines = ilines
        spec.xlines = xlines
    with segyio.create(path, spec) as f:
        f.text[0] = segyio.tools.create_text_header({1: f'verif synthetic {shape} seed {seed}'})
        f.bin.update({segyio.BinField.Samples: n_s, segyio.BinField.Interval: dt_us,
                      segyio.BinField.Format: fmt})
        for k, (i, x) in enumerate(keep):
            f.trace[k] = data[i, x, :]
            _fill_header(f.header[k], ilines[i], xlines[x], k, n_s, dt_us)
    return data


def make_segy_2d(path, n_traces, n_s, seed, fmt=1, dt_us=2000, dead=None):
    data = cube_data((1, n_traces, n_s), seed, dead)[0]
    spec = segyio.spec()
    spec.format = fmt
    spec.samples = [float(dt_us / 1000.0 * k) for k in range(n_s)]
    spec.tracecount = n_traces
    with segyio.create(path, spec) as f:
        f.text[0] = segyio.tools.create_text_header({1: f'verif synthetic 2d {n_traces}x{n_s} seed {seed}'})
        f.bin.update({segyio.BinField.Samples: n_s, segyio.BinField.Interval: dt_us,
                      segyio.BinField.Format: fmt})
        for k in range(n_traces):
            f.trace[k] = data[k, :]
            f.header[k].update({
                segyio.TraceField.TRACE_SEQUENCE_LINE: k + 1,
                segyio.TraceField.TRACE_SEQUENCE_FILE: k + 1,
                segyio.TraceField.CDP: 1000 + k,
                segyio.TraceField.CDP_X: 500000 + 12 * k,
                segyio.TraceField.CDP_Y: 600000 - 5 * k,
                segyio.TraceField.TRACE_SAMPLE_COUNT: n_s,
                segyio.TraceField.TRACE_SAMPLE_INTERVAL: dt_us,
            })
    return data
