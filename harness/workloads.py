"""Logical inputs of conversions (what is converted, at which setting) and how to run one."""
import os

import numpy as np

from sim import core
from . import segygen

ROUTES = ['numpy', 'segy', 'segy_iops', 'segy_irreg', 'segy_2d']
DETECTIONS = ['heuristic', 'thorough', 'exhaustive', 'strip']
BUFSIZES = [512, 4096, 8192, 65536, 1 << 20]
CAPS = [1, 2, 16]

# (blockshape, admissible bits) — every pair satisfies bits*b0*b1*b2 = 32768 with b2 >= 4
BLOCKSHAPES_3D = [
    ((4, 4, -1), [0.25, 0.5, 1, 2, 4, 8, 16]),
    ((4, 4, -1), [1, 2, 4, 8]),
    ((4, 4, -1), [4]),
    ((64, 64, 4), [2]),
    ((8, 8, -1), [2, 4, 8, 16]),
    ((16, 16, -1), [1, 2, 4, 8]),
]
BLOCKSHAPES_2D = [
    ((1, 4, -1), [1, 2, 4, 8]),
    ((1, 16, -1), [1, 2, 4, 8]),
    ((1, 64, -1), [2, 4, 8]),
    ((1, 256, -1), [2, 4]),
]


def resolve_blockshape(bits, bs):
    b = list(bs)
    k = b.index(-1) if -1 in b else None
    if k is not None:
        prod = 1
        for i, v in enumerate(b):
            if i != k:
                prod *= v
        b[k] = int(32768 // (prod * bits))
    return tuple(b)


def _dim(rng, unit, max_units, hard_max):
    """A dimension drawn around block boundaries: k*unit + {-1, 0, 1, r}."""
    k = rng.randint(1, max_units)
    c = rng.choice([k * unit, k * unit - 1, k * unit + 1, (k - 1) * unit + rng.randint(1, unit),
                    rng.randint(2, max(2, min(hard_max, max_units * unit)))])
    return max(2, min(hard_max, c))


def gen_spec(rng, idx, route=None):
    route = route or rng.choice(['numpy'] * 5 + ['segy'] * 2 + ['segy_iops', 'segy_irreg', 'segy_2d', 'segy_2d'])
    spec = {'id': idx, 'route': route, 'data_seed': rng.randrange(1 << 30)}
    if route == 'segy_2d':
        bs, bitss = rng.choice(BLOCKSHAPES_2D)
        bits = rng.choice(bitss)
        full = resolve_blockshape(bits, bs)
        n_tr = _dim(rng, full[1], 3, 3 * full[1] + 1)
        n_s = rng.choice([_dim(rng, 4, 20, 200), _dim(rng, full[2], 2, 2 * full[2] + 1) if full[2] <= 256 else rng.randint(2, 200)])
        spec.update(shape=[n_tr, n_s], bits=bits, blockshape=list(bs), fmt=rng.choice([1, 5]))
    else:
        bs, bitss = rng.choice(BLOCKSHAPES_3D)
        bits = rng.choice(bitss)
        full = resolve_blockshape(bits, bs)
        n_il = _dim(rng, full[0], 3, 3 * full[0])
        if full[1] >= 16:
            n_xl = rng.choice([rng.randint(2, 9), _dim(rng, full[1], 2, 2 * full[1] + 1)])
        else:
            n_xl = _dim(rng, full[1], 4, 24)
        if full[2] <= 128:
            n_s = _dim(rng, full[2], 3, 300)
        else:
            n_s = rng.choice([rng.randint(2, 60), _dim(rng, 4, 30, 200)])
        if full[0] >= 64:
            n_s = min(n_s, 24)
        spec.update(shape=[n_il, n_xl, n_s], bits=bits, blockshape=list(bs))
        if route == 'numpy' and rng.random() < 0.3:
            spec['hdrs'] = True
        if route == 'numpy' and rng.random() < 0.2:
            spec['nonfinite'] = True        # a few NaN / +-Inf samples
        if route != 'numpy':
            spec['fmt'] = rng.choice([1, 5])
            spec['il0'] = rng.choice([1, 1, 100, 2000, -3])      # -3: line numbers cross zero
            spec['xl0'] = rng.choice([1, 20, 300, -2])
            spec['il_step'] = rng.choice([1, 1, 2])
            spec['xl_step'] = rng.choice([1, 1, 3])
        if route == 'segy_irreg':
            n_il, n_xl = spec['shape'][0], spec['shape'][1]
            n_il = max(n_il, 3)
            n_xl = max(n_xl, 3)
            spec['shape'][0], spec['shape'][1] = n_il, n_xl
            ndrop = rng.randint(1, max(1, (n_il * n_xl) // 4))
            cells = [(i, x) for i in range(n_il) for x in range(n_xl)]
            drop = set(map(tuple, rng.sample(cells, ndrop)))
            # keep every inline and crossline populated and first/last trace distinct
            for i in range(n_il):
                if all((i, x) in drop for x in range(n_xl)):
                    drop.discard((i, 0))
            for x in range(n_xl):
                if all((i, x) in drop for i in range(n_il)):
                    drop.discard((0, x))
            drop.discard((0, 0))
            drop.discard((n_il - 1, n_xl - 1))
            if not drop:
                drop = {(1, 1)}
            spec['drop'] = sorted(map(list, drop))
    if route != 'numpy':
        spec['detection'] = rng.choice(DETECTIONS)
    if route != 'segy_irreg' and rng.random() < 0.08:
        spec['dead'] = rng.choice(['tail', 'tail', 'head'])      # dead traces: blocks that compress to all-zero bytes
    if route in ('segy', 'segy_iops') and spec['shape'][0] >= 3 and spec['shape'][1] >= 3 and rng.random() < 0.25:
        # conversion of an inline / crossline window of the source (ordinals; the constructor takes a window
        # only when all four bounds are non-zero)
        n_il, n_xl = spec['shape'][0], spec['shape'][1]
        a = rng.randint(1, n_il - 2)
        c = rng.randint(1, n_xl - 2)
        spec['window'] = [a, rng.randint(a + 1, n_il), c, rng.randint(c + 1, n_xl)]
    return spec


def spec_key(spec):
    return repr(sorted((k, v) for k, v in spec.items() if k not in ('id', 'src')))


def materialise(spec, scratch):
    """Creates the real SEG-Y input of a SEG-Y-route spec under `scratch`; returns its path."""
    route = spec['route']
    if route == 'numpy':
        return None
    if route == 'segy_file':          # a SEG-Y fixture of the repository, read in place
        from sim import env as _env
        spec['src'] = os.path.join(_env.REPO, 'test_data', spec['file'])
        return spec['src']
    path = os.path.join(scratch, f"in_{spec['id']}.sgy")
    if route == 'segy_2d':
        segygen.make_segy_2d(path, spec['shape'][0], spec['shape'][1], spec['data_seed'], fmt=spec['fmt'],
                             dead=spec.get('dead'))
    else:
        drop = set(map(tuple, spec['drop'])) if route == 'segy_irreg' else None
        segygen.make_segy_3d(path, tuple(spec['shape']), spec['data_seed'], fmt=spec['fmt'],
                             il0=spec['il0'], xl0=spec['xl0'], il_step=spec['il_step'], xl_step=spec['xl_step'],
                             drop=drop, dead=spec.get('dead'))
    spec['src'] = path
    return path


def inline_set_bytes(spec):
    """What conversion.run computes before check_memory (used to steer the queue capacity through
    the simulated memory size on the SEG-Y routes)."""
    full = resolve_blockshape(spec['bits'], spec['blockshape'])
    if spec['route'] == 'segy_2d':
        return spec['shape'][0] * spec['shape'][1] * 4
    n_xl = spec['shape'][1] if not spec.get('window') else spec['window'][3] - spec['window'][2]
    return full[0] * n_xl * spec['shape'][2] * 4


def mem_for_cap(spec, cap):
    if cap >= 16:
        return 64 << 30
    return 2 * inline_set_bytes(spec) * cap + 1


class FailingArray(np.ndarray):
    """A source array whose backing store fails from inline `fail_from` on (a memory-mapped volume on a share that went
    away): slicing whole inlines at or beyond it raises OSError."""
    _fail_from = None

    @classmethod
    def wrap(cls, data, fail_from):
        a = data.view(cls)
        a._fail_from = fail_from
        return a

    def __array_finalize__(self, obj):
        self._fail_from = getattr(obj, '_fail_from', None)

    def __getitem__(self, key):
        if self._fail_from is not None and isinstance(key, tuple) and len(key) == 3 and isinstance(key[0], slice) \
                and key[0].start is not None and key[0].start >= self._fail_from:
            raise OSError(5, 'Input/output error reading the source volume (injected)')
        return np.ndarray.__getitem__(self, key).view(np.ndarray)


def converter_fn(spec, out_path):
    """Closure running the real converter for spec, writing to out_path (a SimFS or real path)."""
    from seismic_zfp.conversion import NumpyConverter, SegyConverter
    route = spec['route']
    bits = spec['bits']
    bs = tuple(spec['blockshape'])
    if route == 'numpy':
        data = segygen.cube_data(tuple(spec['shape']), spec['data_seed'], spec.get('dead'))
        if spec.get('fail_from') is not None:
            data = FailingArray.wrap(data, spec['fail_from'])
        if spec.get('nonfinite'):
            rs = np.random.RandomState(spec['data_seed'] % (2 ** 31))
            flat = data.reshape(-1)
            for k, v in zip(rs.randint(0, flat.size, size=6), [np.nan, np.inf, -np.inf, np.nan, np.inf, np.nan]):
                flat[k] = v

        kw = {}
        if spec.get('hdrs'):
            # caller-supplied trace-header arrays (footer arrays beyond the default inline / crossline ones)
            n_il, n_xl = spec['shape'][0], spec['shape'][1]
            i = np.arange(n_il, dtype=np.int32)[:, None]
            x = np.arange(n_xl, dtype=np.int32)[None, :]
            kw['trace_headers'] = {segygen.segyio.TraceField.CDP_X: (100000 + 25 * i + 3 * x).astype(np.int32),
                                   segygen.segyio.TraceField.CDP_Y: (200000 + 7 * i - 25 * x).astype(np.int64),
                                   segygen.segyio.TraceField.offset: (i * 0 + x + 1).astype(np.int32)}

        def fn():
            with NumpyConverter(data, **kw) as c:
                c.run(out_path, bits_per_voxel=bits, blockshape=bs)
        return fn

    src = spec['src']
    kw = dict(bits_per_voxel=bits, blockshape=bs, header_detection=spec['detection'],
              reduce_iops=(route == 'segy_iops' or bool(spec.get('iops'))))

    win = spec.get('window')
    ckw = dict(min_il=win[0], max_il=win[1], min_xl=win[2], max_xl=win[3]) if win else {}

    def fn():
        with SegyConverter(src, **ckw) as c:
            c.run(out_path, **kw)
    return fn


def run_knobs(rng, spec):
    cap = rng.choice(CAPS)
    buf = rng.choice(BUFSIZES)
    policy = rng.choice(core.POLICIES)
    return cap, buf, policy
