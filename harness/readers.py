"""Opening reader objects on simulated storage, executing calls, computing the truth."""
import gc

import glob
import os

from sim import core, storage, env
from . import battery

FPATH = storage.PREFIX + 'f.sgz'

# xarray and whatever it imports lazily must be loaded while nothing is patched (a module imported
# under the simulator's patches would bind the simulated names for good)
try:
    import xarray as _xr
    from seismic_zfp.sgz_xarray import SeismicZfpBackendEntrypoint as _EP
    _fx = sorted(glob.glob(os.path.join(env.REPO, 'test_data', 'small_4bit.sgz')))
    if _fx:
        _ds = _xr.open_dataset(_fx[0], engine=_EP)
        _ = _ds['data'].isel(il=slice(0, 1), xl=slice(0, 2), z=slice(0, 3)).values
        _ds.close()
    HAVE_XARRAY = True
except Exception:                                          # pragma: no cover
    HAVE_XARRAY = False

_caches = None


def clear_caches():
    """Process-wide state of the library back to import time: cache_clear() on every functools cache of
    the loaders, containers / scalars / lazily created attributes of its modules and classes reset."""
    global _caches
    if _caches is None:
        _caches = []
        for cls in (env.m_loader.SgzLoader3d, env.m_loader.SgzLoader2d, env.m_loader.SgzLoader):
            for name in dir(cls):
                a = getattr(cls, name, None)
                if hasattr(a, 'cache_clear') and a not in _caches:
                    _caches.append(a)
    for c in _caches:
        c.cache_clear()
    env.reset_library_state()


def cache_infos():
    clear = _caches is None
    if clear:
        clear_caches()
    return {c.__name__: c.cache_info() for c in _caches}


OPENERS = {
    'path': {'kind': 'reader', 'via': 'path'},
    'handle': {'kind': 'reader', 'via': 'handle'},
    'blob': {'kind': 'reader', 'via': 'blob'},
    'preload': {'kind': 'reader', 'via': 'path', 'preload': True},
    'ccs1': {'kind': 'reader', 'via': 'path', 'ccs': 1},
    'ccs2': {'kind': 'reader', 'via': 'path', 'ccs': 2},
    'preload_ccs1': {'kind': 'reader', 'via': 'path', 'preload': True, 'ccs': 1},
    'blob_preload': {'kind': 'reader', 'via': 'blob', 'preload': True},
    'emulator': {'kind': 'emulator', 'via': 'path'},
    'emulator_ccs1': {'kind': 'emulator', 'via': 'path', 'ccs': 1},
    'emulator_blob': {'kind': 'emulator', 'via': 'blob'},
    'emulator_handle': {'kind': 'emulator', 'via': 'handle'},
    'handle_nofd': {'kind': 'reader', 'via': 'plain'},          # a file-like object without an OS descriptor
    'emulator_nofd': {'kind': 'emulator', 'via': 'plain'},
    'xarray': {'kind': 'xarray', 'via': 'path'},
}


def applicable(kind, call):
    """Which calls make sense on which kind of object."""
    if call[0].startswith('xr_'):
        return kind == 'xarray'
    if kind == 'xarray':
        return False
    if call[0].startswith('em_'):
        return kind == 'emulator'
    return True


def open_obj(fs, opener, path=FPATH, target=None):
    """target: re-use this handle / blob client (the one a previous open_obj left in fs.last_target)."""
    o = OPENERS[opener] if isinstance(opener, str) else opener
    from seismic_zfp.read import SgzReader
    from seismic_zfp.segyio_emulator import SegyioEmulator
    via = o.get('via', 'path')
    if target is not None:
        pass
    elif via == 'path':
        target = path
    elif via == 'handle':
        target = fs.open(path, 'rb')
    elif via == 'plain':
        target = storage.SimPlainHandle(fs.open(path, 'rb'))
    else:
        target = storage.SimBlob(fs, path)
    fs.last_target = target
    if o['kind'] == 'reader':
        return SgzReader(target, preload=o.get('preload', False), chunk_cache_size=o.get('ccs'))
    if o['kind'] == 'emulator':
        return SegyioEmulator(target, chunk_cache_size=o.get('ccs'))
    if o['kind'] == 'xarray':
        import xarray as xr
        from seismic_zfp.sgz_xarray import SeismicZfpBackendEntrypoint
        return xr.open_dataset(target, engine=SeismicZfpBackendEntrypoint)
    raise ValueError(o)


def close_obj(obj):
    try:
        if HAVE_XARRAY and isinstance(obj, _xr.Dataset):
            obj.close()
        elif hasattr(obj, 'subvolume') or hasattr(obj, 'trace') and hasattr(obj, 'header'):
            obj.__exit__(None, None, None)
            obj.loader.clear_cache()
        else:
            obj.close()
    except core.SimAbort:
        raise
    except Exception:
        pass


def fresh_outcome(fs, opener, call, path=FPATH, clear=True):
    """Opens a fresh object, applies one call, closes.  The open itself may raise: that is the
    outcome then.  clear=False: the process-wide state of the library is left as earlier calls left it."""
    if clear:
        clear_caches()
    try:
        obj = open_obj(fs, opener, path)
    except core.SimAbort:
        raise
    except core.HarnessError:
        raise
    except Exception as e:
        return ('exc', type(e).__name__)
    try:
        return battery.outcome(lambda: battery.apply_call(obj, call))
    finally:
        close_obj(obj)


def truth_table(data, calls_by_kind, path=FPATH):
    """{(kind, repr(call)): outcome} on a fresh default object (opened by path, no preload, default
    chunk cache, local file, all caches cleared) under the sequential reference schedule."""
    fs = storage.SimFS()
    fs.add_file(path, data)
    table = {}

    def fn():
        for kind, calls in calls_by_kind.items():
            opener = {'reader': 'path', 'emulator': 'emulator', 'xarray': 'xarray'}[kind]
            for call in calls:
                key = (kind, repr(call))
                if key not in table:
                    table[key] = fresh_outcome(fs, opener, call, path)
    r = env.run_sim(fn, fs, core.SeqChooser(), step_cap=10 ** 9)
    if r.status != 'ok':
        raise core.HarnessError(f'truth computation ended with {r.status}: {r.exc!r}')
    clear_caches()
    return table
