"""Opening reader objects on simulated storage, executing calls, computing the truth."""
import gc

from sim import core, storage, env
from . import battery

FPATH = storage.PREFIX + 'f.sgz'

_caches = None


def clear_caches():
    """Process-wide state of the library back to import time: cache_clear() on every functools cache of
    the loaders, containers / scalars / lazily created attributes of its modules and classes reset."""
    global _caches
    if _caches is None:
        _caches = []
        for cls in (env.m_loader.SgzLoader3d, env.m_loader.SgzLoader2d, env.m_loader.SgzLoader):
            for name in dir(cls):
                a = getattr(cls, name, None)
                if hasattr(a, 'cache_clear') and a not in _caches:
                    _caches.append(a)
    for c in _caches:
        c.cache_clear()
    env.reset_library_state()


def cache_infos():
    clear = _caches is None
    if clear:
        clear_caches()
    return {c.__name__: c.cache_info() for c in _caches}


OPENERS = {
    'path': {'kind': 'reader', 'via': 'path'},
    'handle': {'kind': 'reader', 'via': 'handle'},
    'blob': {'kind': 'reader', 'via': 'blob'},
    'preload': {'kind': 'reader', 'via': 'path', 'preload': True},
    'ccs1': {'kind': 'reader', 'via': 'path', 'ccs': 1},
    'ccs2': {'kind': 'reader', 'via': 'path', 'ccs': 2},
    'preload_ccs1': {'kind': 'reader', 'via': 'path', 'preload': True, 'ccs': 1},
    'blob_preload': {'kind': 'reader', 'via': 'blob', 'preload': True},
    'emulator': {'kind': 'emulator', 'via': 'path'},
    'emulator_ccs1': {'kind': 'emulator', 'via': 'path', 'ccs': 1},
    'emulator_blob': {'kind': 'emulator', 'via': 'blob'},
    'emulator_handle': {'kind': 'emulator', 'via': 'handle'},
}


def open_obj(fs, opener, path=FPATH):
    o = OPENERS[opener] if isinstance(opener, str) else opener
    from seismic_zfp.read import SgzReader
    from seismic_zfp.segyio_emulator import SegyioEmulator
    via = o.get('via', 'path')
    if via == 'path':
        target = path
    elif via == 'handle':
        target = fs.open(path, 'rb')
    else:
        target = storage.SimBlob(fs, path)
    if o['kind'] == 'reader':
        return SgzReader(target, preload=o.get('preload', False), chunk_cache_size=o.get('ccs'))
    if o['kind'] == 'emulator':
        return SegyioEmulator(target, chunk_cache_size=o.get('ccs'))
    raise ValueError(o)


def close_obj(obj):
    try:
        if hasattr(obj, 'subvolume') or hasattr(obj, 'trace') and hasattr(obj, 'header'):
            obj.__exit__(None, None, None)
            obj.loader.clear_cache()
        else:
            obj.close()
    except core.SimAbort:
        raise
    except Exception:
        pass


def fresh_outcome(fs, opener, call, path=FPATH):
    """Opens a fresh object, applies one call, closes.  The open itself may raise: that is the
    outcome then."""
    clear_caches()
    try:
        obj = open_obj(fs, opener, path)
    except core.SimAbort:
        raise
    except core.HarnessError:
        raise
    except Exception as e:
        return ('exc', type(e).__name__)
    try:
        return battery.outcome(lambda: battery.apply_call(obj, call))
    finally:
        close_obj(obj)


def truth_table(data, calls_by_kind, path=FPATH):
    """{(kind, repr(call)): outcome} on a fresh default object (opened by path, no preload, default
    chunk cache, local file, all caches cleared) under the sequential reference schedule."""
    fs = storage.SimFS()
    fs.add_file(path, data)
    table = {}

    def fn():
        for kind, calls in calls_by_kind.items():
            opener = 'path' if kind == 'reader' else 'emulator'
            for call in calls:
                key = (kind, repr(call))
                if key not in table:
                    table[key] = fresh_outcome(fs, opener, call, path)
    r = env.run_sim(fn, fs, core.SeqChooser(), step_cap=10 ** 9)
    if r.status != 'ok':
        raise core.HarnessError(f'truth computation ended with {r.status}: {r.exc!r}')
    clear_caches()
    return table
