"""C17 — I/O failures are reported, never turned into samples.

For a target call on a fresh reader: one fault-free run under a seeded completion order gives N (the
number of range requests the call issues, pool workers included) and must return the true result;
then for every k < N and every fault kind the call is re-run on a fresh reader with that single
fault (plus seeded pairs, plus faults at the reads of open itself).  Oracle: the faulted call raises
or returns exactly the true result; every fault-free follow-up on the same reader returns exactly
what a fresh reader returns.
"""
import collections
import json
import multiprocessing
import os
import shutil
import tempfile
import time

from sim import core, storage, env
from . import common, workloads, filelib, battery, readers

PID = 'C17'

# 'stall': the request answers in full, but only after a time-out has expired somewhere in the code under test (or,
# where there is none, when nothing else can happen): the "timing" of the property's last clause
LOCAL_KINDS = ['exception', 'exception_seek', 'short', 'empty', 'stall']
REMOTE_KINDS = ['exception', 'exception_readall', 'short', 'empty', 'stall']
OPENERS_LOCAL = ['path', 'handle', 'ccs1', 'emulator', 'preload', 'handle_nofd', 'emulator_nofd']
OPENERS_REMOTE = ['blob', 'blob', 'emulator_blob', 'blob_preload']

ASSUMPTIONS = [
    'fault model = what C17 states: an exception from the range read, a strict prefix of the requested bytes, or '
    'nothing; remote exceptions are raised either by download_blob or by readall',
    'the truth of a call is what a fresh default reader (opened by path, local, no preload) returns fault-free',
    'remote backend = in-process fake of download_blob(offset, length).readall(); SDK-internal retries not modelled',
    'completion order of the up-to-20 concurrent range reads is decided by the seeded scheduler at download/readall '
    'granularity',
    'single faults are enumerated completely per sampled (file, opener, call); pairs of faults are sampled',
    'a stalled request answers in full after a time-out has expired in the code under test (where it has none: when '
    'nothing else can happen); time-outs of 5 s and more never expire merely because other threads were scheduled first',
]


# --------------------------------------------------------------------------------------------
# one execution: open, warm-ups, [arm] target [disarm], follow-ups
# --------------------------------------------------------------------------------------------

def execute(data, opener, warm, target, follow, plan, chooser, step_cap=200000, preempt=None):
    """Returns dict(outcomes: {'open','target','follow':[..]}, n_requests, fired, sched)."""
    fs = storage.SimFS()
    fs.add_file(readers.FPATH, data)
    fs.faults = storage.FaultPlan(plan)
    res = {'open': None, 'target': None, 'follow': [], 'n': 0, 'reqs': []}

    def fn():
        readers.clear_caches()
        if target[0] == 'open':
            fs.faults.arm()
        try:
            obj = readers.open_obj(fs, opener)
            res['open'] = ('ok', 'opened')
        except core.SimAbort:
            raise
        except core.HarnessError:
            raise
        except Exception as e:
            res['open'] = ('exc', type(e).__name__)
            fs.faults.disarm()
            res['n'] = fs.faults.k
            if target[0] != 'open' or readers.OPENERS[opener].get('via', 'path') == 'path':
                return
            # the caller still holds the handle / blob client the failed open was given: a second,
            # fault-free open on that same object must behave like an open on a fresh one
            try:
                obj = readers.open_obj(fs, opener, target=fs.last_target)
            except core.SimAbort:
                raise
            except core.HarnessError:
                raise
            except Exception as e2:
                res['follow'] = [('exc', type(e2).__name__)] * len(follow)
                return
            try:
                for c in follow:
                    res['follow'].append(battery.outcome(lambda: battery.apply_call(obj, c)))
            finally:
                readers.close_obj(obj)
            return
        try:
            if target[0] == 'open':
                fs.faults.disarm()
                res['n'] = fs.faults.k
                res['target'] = res['open']
                res['reqs'] = [(r[3], r[4], r[5]) for r in fs.reqlog]      # (what open asked for: lengths for the short answers)
            else:
                for c in warm:
                    battery.outcome(lambda: battery.apply_call(obj, c))
                fs.new_call()
                n0 = len(fs.reqlog)
                fs.faults.arm()
                res['target'] = battery.outcome(lambda: battery.apply_call(obj, target))
                fs.faults.disarm()
                res['n'] = fs.faults.k
                res['reqs'] = [(r[3], r[4], r[5]) for r in fs.reqlog[n0:]]
            for c in follow:
                res['follow'].append(battery.outcome(lambda: battery.apply_call(obj, c)))
        finally:
            readers.close_obj(obj)
    r = env.run_sim(fn, fs, chooser, step_cap=step_cap, cpu_count=4, preempt=tuple(preempt) if preempt else None)
    res['status'] = r.status
    res['preempt'] = list(preempt) if preempt else None
    res['fired'] = list(fs.faults.fired)
    res['sched'] = r.sched
    readers.clear_caches()
    return res


def judge(res, truth, kind, target, follow, faulted):
    """Returns (where, description) or (None, '')."""
    if res['status'] in ('deadlock', 'stepcap'):
        return res['status'], f"call never returned: {res['status']}"
    if res['status'] == 'raised':
        return None, ''      # the harness function itself does not raise; defensive
    if target[0] == 'open':
        if res['open'][0] == 'exc' and not res['follow']:
            return None, ''
    else:
        if res['open'][0] == 'exc':
            return 'open-failed-without-fault', f"fault-free open raised {res['open'][1]}"
        want = truth[(kind, repr(target))]
        got = res['target']
        if faulted and res['fired']:
            if not battery.acceptable(got, want):
                return 'target-returned-wrong', f'{target} returned {got} under fault, true result {want}'
        else:
            if got != want and not (got[0] == 'exc' and want[0] == 'exc'):
                return 'nofault-order-wrong', f'{target} returned {got} without fault, true result {want}'
    for c, got in zip(follow, res['follow']):
        want = truth[(kind, repr(c))]
        if got != want and not (got[0] == 'exc' and want[0] == 'exc'):     # (which error a refused call reports is not compared)
            return 'followup-wrong', f'after the faulted {target}, fault-free {c} returned {got}, fresh reader gives {want}'
    return None, ''


def short_len(rng, want):
    if want <= 1:
        return 0
    c = rng.random()
    if c < 0.25:
        return want - 1
    if c < 0.45:
        return (want // 2) & ~3
    if c < 0.6:
        return max(0, want - 4)
    if c < 0.7:
        return 1
    if c < 0.8:
        return (want // 8) * 4 + 2
    return rng.randrange(0, want)


def fault_arg(rng, kind, want):
    """Length of a short answer, or which exception class an 'exception' fault raises."""
    if kind.startswith('exception'):
        return rng.randrange(8)
    if kind == 'stall':
        return 0
    return short_len(rng, want)


# --------------------------------------------------------------------------------------------
# work item
# --------------------------------------------------------------------------------------------

HEADER_CALLS = ('gen_trace_header', 'gen_trace_header_all', 'get_tracefield_values', 'em_header', 'em_attributes',
                'tracefield_sweep', 'header_sweep', 'em_attributes_sweep')


def _family(call):
    return 'header' if call[0] in HEADER_CALLS else 'sample'


def gen_item(ctx, run):
    seed = ctx['seed']
    lib = ctx['lib']
    wl = core.stream(seed, run, 'workload')
    e = lib[wl.randrange(len(lib))]
    if wl.random() < 0.2:
        # irregular files carry the most lazily built state (mask, padding modes): a fifth of the items
        # are drawn from them alone
        irr = [x for x in lib if x['meta']['kind'] == 'irreg']
        if irr:
            e = irr[wl.randrange(len(irr))]
    if wl.random() < 0.03:
        big = [x for x in lib if x['meta'].get('big')]
        if big:
            e = big[0]
    m = e['meta']
    remote = wl.random() < 0.5
    opener = wl.choice(OPENERS_REMOTE if remote else OPENERS_LOCAL)
    kind = readers.OPENERS[opener]['kind']
    if wl.random() < 0.08:
        target = ['open']
    else:
        target = battery.gen_call(wl, m, kind) if wl.random() < 0.7 else wl.choice(battery.fixed_battery(m, kind))
    warm = []
    if target[0] != 'open':
        # warm-ups: half of them from the same family as the target (header-type calls before a header-type
        # target, sample reads before a sample read): state left by a related call is what a fault can poison
        for _ in range(wl.choice([0, 0, 1, 2, 3])):
            c = battery.gen_call(wl, m, kind)
            if wl.random() < 0.5:
                for _ in range(8):
                    if _family(c) == _family(target):
                        break
                    c = battery.gen_call(wl, m, kind)
            warm.append(c)
    follow = ([['text_header'], ['bin_header']] if target[0] == 'open' else [target]) + \
        [battery.gen_call(wl, m, kind) for _ in range(wl.choice([1, 1, 2]))]
    if wl.random() < 0.12 and not m.get('big'):
        # 'header state' items: warm-ups, target and follow-ups all drawn from the handful of call types that share
        # the lazily built header state of a reader (cached footer arrays and their padding mode, population mask,
        # template): tracefield read, header by ordinal (both routes), trace by ordinal
        e2 = e
        if m['kind'] == '3d' and wl.random() < 0.6:
            odd = [x for x in lib if x['meta']['kind'] in ('irreg', '2d') and not x['meta'].get('big')]
            if odd:
                e2 = odd[wl.randrange(len(odd))]
        e, m = e2, e2['meta']
        ntr = m['tracecount']

        def hcall():
            i = wl.choice([ntr - 1, ntr // 2, wl.randrange(ntr), wl.randrange(ntr)])
            f = wl.choice((m['stored'][:4] or [37]) + [37])
            if kind == 'emulator':
                return wl.choice([['em_attributes', f], ['em_header', i], ['em_trace', i], ['em_header', i]])
            return wl.choice([['get_tracefield_values', f], ['gen_trace_header', i], ['gen_trace_header_all', i],
                              ['get_trace', i], ['gen_trace_header', i]])
        warm = [hcall() for _ in range(wl.choice([1, 1, 2]))]
        target = hcall()
        follow = [target, hcall()]
    policy = wl.choice(core.POLICIES)
    pre_p = wl.choice([0, 0, 0, 0, 0, 0.02])      # one item in six also pre-empts at source-line level
    return e, opener, kind, target, warm, follow, policy, remote, pre_p


def one_item(ctx, run):
    seed = ctx['seed']
    e, opener, kind, target, warm, follow, policy, remote, pre_p = gen_item(ctx, run)
    m = e['meta']
    data = e['data']
    truth_calls = [c for c in ([target] if target[0] != 'open' else []) + follow]
    truth = readers.truth_table(data, {kind: truth_calls})
    rec = {'run': run, 'file': e['name'], 'layout': f"{m['kind']}/{m['layout']}", 'opener': opener, 'call': target[0],
           'remote': remote, 'faulted': 0, 'raised': 0, 'returned_true': 0, 'N': 0, 'violations': [],
           'fault_counts': collections.Counter(), 'probes': collections.Counter(), 'keys': set(), 'simtime': 0.0}

    n_exec = [0]

    def chooser():
        # every execution of this item gets its own schedule stream: the fault plans are enumerated,
        # the completion orders are sampled afresh each time
        n_exec[0] += 1
        return core.make_chooser(policy, core.stream(seed, run, f'schedule:{n_exec[0]}'), est_steps=200)

    def pre():
        return [pre_p, f'{seed}:{run}:{n_exec[0]}'] if pre_p else None

    # ---- fault-free run: N and clause (c)
    base = execute(data, opener, warm, target, follow, {}, chooser(), preempt=pre())
    if pre_p:
        rec['probes']['line_level_preemption'] += 1
    N = base['n']
    rec['N'] = N
    rec['simtime'] += base['sched'].clock
    where, what = judge(base, truth, kind, target, follow, faulted=False)
    pools = getattr(base['sched'], 'pools', [])
    if pools:
        mx = max(p.max_inflight for p in pools)
        if mx >= 2:
            rec['probes']['two_or_more_requests_in_flight'] += 1
        if mx >= 10:
            rec['probes']['ten_or_more_requests_in_flight'] += 1
        rec['probes']['call_used_thread_pool'] += 1
    offs = [r[0] for r in base['reqs']]
    if offs != sorted(offs):
        rec['probes']['completion_order_differs_from_issue_order'] += 1
    if where:
        rec['violations'].append(_viol(e, opener, kind, target, warm, follow, {}, base, where, what, 'none', m))
        return _fin(rec)
    if base['open'][0] == 'exc':
        return _fin(rec)
    # ---- clause (c): more completion orders of the same fault-free call when it fans out
    if pools and max(p.max_inflight for p in pools) >= 2:
        for extra_policy in ('random', 'ioslow', 'pct2'):
            n_exec[0] += 1
            ch = core.make_chooser(extra_policy, core.stream(seed, run, f'schedule:{n_exec[0]}'), est_steps=200)
            res = execute(data, opener, warm, target, follow, {}, ch, preempt=pre())
            rec['simtime'] += res['sched'].clock
            rec['probes']['extra_fault_free_completion_orders'] += 1
            where, what = judge(res, truth, kind, target, follow, faulted=False)
            if where:
                rec['violations'].append(_viol(e, opener, kind, target, warm, follow, {}, res, where, what, 'none', m))
                return _fin(rec)

    # ---- single faults, enumerated
    fr = core.stream(seed, run, 'faults')
    kinds = REMOTE_KINDS if remote else LOCAL_KINDS
    plans = []
    for k in range(N):
        for fk in kinds:
            want = base['reqs'][k][1] if k < len(base['reqs']) else 4096
            plans.append({k: (fk, fault_arg(fr, fk, want))})
    # ---- seeded pairs
    if N >= 2:
        for _ in range(min(6, N)):
            k1, k2 = sorted(fr.sample(range(N), 2))
            f1, f2 = fr.choice(kinds), fr.choice(kinds)
            plans.append({k1: (f1, fault_arg(fr, f1, 4096)), k2: (f2, fault_arg(fr, f2, 4096))})
    # ---- adjacent pairs: the request issued right after a faulted one (what a retry would be) is
    #      faulted too, half of the time with a short / empty answer
    for k in range(min(N, 24)):
        f1 = fr.choice(kinds)
        f2 = fr.choice(['short', 'empty']) if fr.random() < 0.6 else fr.choice(kinds)
        want = base['reqs'][k][1] if k < len(base['reqs']) else 4096
        plans.append({k: (f1, fault_arg(fr, f1, want)), k + 1: (f2, fault_arg(fr, f2, want))})
    d0 = 4096 * m['n_header_blocks']
    d1 = d0 + 4096 * m['data_blocks']
    for plan in plans:
        res = execute(data, opener, warm, target, follow, plan, chooser(), preempt=pre())
        rec['simtime'] += res['sched'].clock
        if not res['fired']:
            continue
        rec['faulted'] += 1
        for (k, fk, off, ln, th) in res['fired']:
            rec['fault_counts'][fk] += 1
            if fk.startswith('exception'):
                names = storage.REMOTE_EXC if remote else storage.LOCAL_EXC
                rec['fault_counts']['raised:' + names[plan[k][1] % len(names)]] += 1
            sec = 'header' if off < d0 else ('data' if off < d1 else 'footer')
            rec['probes']['fault_in_' + sec] += 1
            rec['probes']['fault_on_pool_worker' if th.startswith('w-') else 'fault_on_calling_thread'] += 1
            if k == 0:
                rec['probes']['fault_in_first_request'] += 1
            if k == N - 1:
                rec['probes']['fault_in_last_request'] += 1
            rec['keys'].add((rec['layout'], target[0], min(k, 40), fk, 'blob' if remote else 'file'))
        if len(plan) == 2 and len(res['fired']) == 2:
            rec['probes']['two_faults_fired_in_one_call'] += 1
            if res['fired'][1][0] == res['fired'][0][0] + 1 and res['fired'][1][2:4] == res['fired'][0][2:4]:
                rec['probes']['second_fault_hit_a_repeat_of_the_same_range'] += 1
        tgt = res['target'] if target[0] != 'open' else res['open']
        if tgt is not None and tgt[0] == 'exc':
            rec['raised'] += 1
        else:
            rec['returned_true'] += 1
        where, what = judge(res, truth, kind, target, follow, faulted=True)
        if where:
            fk = '+'.join(sorted({f[1] for f in res['fired']}))
            rec['violations'].append(_viol(e, opener, kind, target, warm, follow, plan, res, where, what, fk, m))
            if len(rec['violations']) >= 6:
                break
    return _fin(rec)


def _fin(rec):
    rec['fault_counts'] = dict(rec['fault_counts'])
    rec['probes'] = dict(rec['probes'])
    rec['keys'] = sorted(rec['keys'])
    return rec


def signature(m, target, where, fk, remote):
    return f"{m['layout']}|{m['kind']}|{target[0]}|{fk}|{'blob' if remote else 'file'}|{where}"


def _viol(e, opener, kind, target, warm, follow, plan, res, where, what, fk, m):
    remote = readers.OPENERS[opener].get('via') == 'blob'
    return {'signature': signature(m, target, where, fk, remote), 'what': what, 'file': e['name'],
            'spec': e['spec'], 'opener': opener, 'target': target, 'warm': warm, 'follow': follow,
            'plan': {str(k): list(v) for k, v in plan.items()}, 'trace': list(res['sched'].trace), 'where': where,
            'preempt': res.get('preempt')}


# --------------------------------------------------------------------------------------------
# replay / minimise
# --------------------------------------------------------------------------------------------

def load_file(doc, scratch):
    if doc['spec'] is None:
        with open(os.path.join(env.REPO, 'test_data', doc['file'].split(':', 1)[1]), 'rb') as f:
            return f.read()
    spec = dict(doc['spec'])
    workloads.materialise(spec, scratch)
    data, _, _ = filelib.convert(spec)
    if data is None:
        raise common.HarnessFailure('conversion of the replayed input failed')
    return data


def replay_doc(doc, data):
    m = filelib.read_meta(data)
    opener = doc['opener']
    kind = readers.OPENERS[opener]['kind']
    target, warm, follow = doc['target'], doc['warm'], doc['follow']
    plan = {int(k): tuple(v) for k, v in doc['plan'].items()}
    truth = readers.truth_table(data, {kind: ([target] if target[0] != 'open' else []) + follow})
    res = execute(data, opener, warm, target, follow, plan, core.ReplayChooser(doc['trace']), preempt=doc.get('preempt'))
    where, what = judge(res, truth, kind, target, follow, faulted=bool(plan))
    if not where:
        return None, ''
    fk = '+'.join(sorted({f[1] for f in res['fired']})) if plan else 'none'
    remote = readers.OPENERS[opener].get('via') == 'blob'
    return signature(m, target, where, fk, remote), what


def minimise(doc, data):
    want = doc['signature']

    def ok(d):
        try:
            return replay_doc(d, data)[0] == want
        except Exception:
            return False
    if not ok(doc):
        return doc, False
    d = dict(doc)
    for key in ('warm', 'follow'):
        lst = list(d[key])
        i = 0
        while i < len(lst):
            t = dict(d)
            t[key] = lst[:i] + lst[i + 1:]
            if ok(t):
                lst = t[key]
                d = t
            else:
                i += 1
    if len(d['plan']) > 1:
        for k in list(d['plan']):
            t = dict(d)
            t['plan'] = {a: b for a, b in d['plan'].items() if a != k}
            if t['plan'] and ok(t):
                d = t
                break

    def test(trace):
        t = dict(d)
        t['trace'] = trace
        return ok(t)
    tr = common.minimise_positions(list(d['trace']), None, test, max_tests=120)
    while tr and tr[-1] is None:
        tr.pop()
    d['trace'] = tr
    d['what'] = replay_doc(d, data)[1]
    return d, True


def _child(doc, scratch, q):
    try:
        q.put(replay_doc(doc, load_file(doc, scratch)))
    except BaseException as e:
        q.put(('error', repr(e)))


def cmd_replay(path):
    doc = json.load(open(path))
    scratch = tempfile.mkdtemp(prefix='verif_c17_')
    try:
        mp = multiprocessing.get_context('fork')
        q = mp.SimpleQueue()
        p = mp.Process(target=_child, args=(doc, scratch, q))
        p.start()
        p.join(600)
        if p.exitcode is None:
            p.kill()
            common.harness_exit('replay timed out')
        if p.exitcode != 0:
            sig, what = 'worker_crash', f'the reading process died with exit code {p.exitcode}'
        else:
            sig, what = q.get()
            if sig == 'error':
                common.harness_exit(f'replay failed: {what}')
    finally:
        shutil.rmtree(scratch, ignore_errors=True)
    if sig == doc['signature']:
        print(f'VIOLATION property={PID} replay={path}')
        print(f'  signature={sig} :: {what}')
        return 1
    print(f'replay did not reproduce: expected {doc["signature"]}, got {sig}')
    return 0 if sig is None else 1


# --------------------------------------------------------------------------------------------
# main
# --------------------------------------------------------------------------------------------

def main(tier, seed):
    t0 = time.time()
    scratch = tempfile.mkdtemp(prefix='verif_c17_')
    try:
        return _main(tier, seed, scratch, t0)
    finally:
        shutil.rmtree(scratch, ignore_errors=True)


def _stable(rec):
    return json.dumps({k: v for k, v in rec.items() if k != 'violations'}, sort_keys=True, default=str) + \
        json.dumps([{k: v for k, v in x.items() if k != 'what'} for x in rec['violations']], sort_keys=True, default=str)


def _main(tier, seed, scratch, t0):
    quick = tier == 'quick'
    lib = filelib.build(seed, scratch, n_random=6 if quick else 60, big=True)
    ctx = {'seed': seed, 'lib': lib}
    for run in (10 ** 6, 10 ** 6 + 1, 10 ** 6 + 2):
        if _stable(one_item(ctx, run)) != _stable(one_item(ctx, run)):
            common.harness_exit(f'nondeterminism: item {run} of seed {seed} evaluated twice gave different records')
    n_items = int(os.environ.get('VERIF_RUNS', '4000' if quick else '2000000'))
    deadline = time.time() + common.budget_s(120 if quick else 1200)
    mark_dir = os.path.join(scratch, 'marks')
    os.makedirs(mark_dir)
    results, skipped, crashed = common.run_parallel(one_item, ctx, range(n_items), deadline=deadline, chunk=8,
                                                    mark_dir=mark_dir)
    faulted = raised = returned_true = 0
    fault_counts = collections.Counter()
    probes = collections.Counter()
    keys = set()
    viols = {}
    samples = []
    simtime = 0.0
    Ns = collections.Counter()
    for run, rec in results:
        faulted += rec['faulted']
        raised += rec['raised']
        returned_true += rec['returned_true']
        fault_counts.update(rec['fault_counts'])
        probes.update(rec['probes'])
        keys.update(map(tuple, rec['keys']))
        simtime += rec['simtime']
        Ns[min(rec['N'], 50) // 10 * 10] += 1
        if len(samples) < 4 and rec['faulted'] and run % 7 == 0:
            samples.append({'run': run, 'file': rec['file'], 'opener': rec['opener'], 'call': rec['call'],
                            'range_requests': rec['N'], 'faulted_executions': rec['faulted'],
                            'raised': rec['raised'], 'returned_true_despite_fault': rec['returned_true']})
        for v in rec['violations']:
            viols.setdefault(v['signature'], []).append((run, v))
    for c in crashed:
        viols.setdefault('worker_crash', []).append((c['item'], {'signature': 'worker_crash', 'crash': True,
                                                                 'what': 'reader process died under an injected fault'}))
    known = common.load_known(PID)
    reported = []
    for sig, lst in sorted(viols.items()):
        run, v = min(lst, key=lambda x: (len(x[1].get('warm', [])) + len(x[1].get('follow', [])), x[0]))
        doc = dict(v, property=PID, seed=seed, run=run, occurrences=len(lst))
        if sig not in known and not v.get('crash') and len(reported) < 8:
            try:
                doc, ok = minimise(doc, load_file(doc, scratch))
                doc['minimised'] = ok
            except Exception as ex:
                doc['minimised'] = False
                doc['minimise_error'] = repr(ex)
        path = common.write_replay(PID, seed, f"{run}-{common.sha(sig.encode())[:8]}", doc)
        reported.append({'signature': sig, 'replay': path, 'what': doc.get('what', '')})
    expected = ['fault_on_pool_worker', 'fault_on_calling_thread', 'fault_in_data', 'fault_in_footer', 'fault_in_header',
                'two_or_more_requests_in_flight', 'ten_or_more_requests_in_flight',
                'completion_order_differs_from_issue_order', 'fault_in_first_request', 'fault_in_last_request',
                'two_faults_fired_in_one_call']
    wall = time.time() - t0
    coverage = {
        'evaluations': faulted + len(results),
        'distinct_nontrivial': len(keys),
        'rule': 'one evaluation = one execution of (fresh reader, warm-ups, target call under a fault plan and a seeded '
                'completion order, fault-free follow-ups); distinct_nontrivial = distinct (layout, call, fault position '
                'k (capped at 40), fault kind, backend) in which the fault actually fired',
        'samples': samples or [{'note': 'none'}],
        'targets': len(results),
        'faulted_executions': faulted,
        'faulted_call_raised': raised,
        'faulted_call_returned_true_result': returned_true,
        'range_requests_per_target_histogram': {f'{k}-{k + 9}': v for k, v in sorted(Ns.items())},
        'fault_counts': dict(fault_counts),
        'probes': dict(sorted(probes.items())),
        'unreached': [p for p in expected if not probes.get(p)],
        'files_in_library': len(lib),
        'items_skipped_for_budget': len(skipped),
        'runs_per_hour': int((faulted + len(results)) / max(1e-9, wall) * 3600),
        'simulated_time_s': round(simtime, 2),
        'worker_crashes': len(crashed),
        'determinism_selftest': {'items_repeated_in_process': 3, 'mismatches': 0},
        'components_real': ['seismic_zfp readers / loaders / emulator', 'zfpy', 'numpy'],
        'components_stubbed': ['concurrent.futures -> SimExecutor (1 local / 20 remote workers on simulated threads)',
                               'file handle -> SimReadHandle with fault plan', 'BlobClient -> SimBlob with fault plan',
                               'psutil.cpu_count -> 4'],
        'known_findings_matched': sorted(s for s in viols if s in known),
    }
    nviol = sum(1 for v in reported if v['signature'] not in known)
    common.write_evidence(PID, tier, seed, 'fault_enumeration', coverage, ASSUMPTIONS, wall, nviol)
    code = common.conclude(PID, reported, known)
    print(f'{PID} {tier}: {len(results)} targets, {faulted} faulted executions ({raised} raised, {returned_true} returned '
          f'the true result), {len(keys)} distinct fault sites, unreached: {coverage["unreached"]}, {wall:.0f}s, exit {code}')
    return code


def selftest_digests(seed, n, scratch):
    lib = filelib.build(seed, scratch, n_random=4)
    ctx = {'seed': seed, 'lib': lib}
    results, _, _ = common.run_parallel(lambda c, run: common.sha(_stable(one_item(c, run)).encode()), ctx, range(n), chunk=5)
    return [d for _, d in sorted(results)]
