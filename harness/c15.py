"""C15 — history independence: caches, preload and shared handles never change a result.

Seeded histories of reads (all methods, repeated / alternating / block-straddling arguments) through a
mix of reader objects, one emulator (seven readers on one handle), optionally a blob reader and an
xarray dataset, with preload on/off and chunk-cache sizes 1 / 2 / default, readers being opened and
closed meanwhile, optionally driven by two caller threads.  Oracle: every result equals, bit for bit,
the result of the same call on a fresh isolated default reader (computed before the history runs).
"""
import collections
import json
import os
import shutil
import tempfile
import time

from sim import core, storage, env
from . import common, workloads, filelib, battery, readers, histories
from .c17 import load_file

PID = 'C15'

ASSUMPTIONS = [
    'the truth of a call is its result on a fresh reader opened by path with default options (no preload, default '
    'chunk cache, local file), all class-level loader caches cleared; it is computed before the history runs',
    'scope: use after close, mutation of returned arrays by the caller and direct calls of the state-management '
    'methods read_variant_headers(include_padding=...)/clear_variant_headers() are excluded (DESIGN.md 3.4)',
    'exceptions are compared by type only',
    'with two caller threads the callers interleave at range-read / pool decision points only',
    'xarray requests use unit steps (stepped requests are C13/C02 territory)',
    'in a quarter of the single-caller histories some reads meet a one-shot storage fault (exception / short / empty on '
    'their k-th range request); such a read is an earlier read like any other: its own outcome is not judged, every '
    'later result is',
]


def cache_state(objs):
    """Abstract signature of the memoised state reachable from the open objects + class caches."""
    sig = []
    hits = 0
    for name, ci in sorted(readers.cache_infos().items()):
        sig.append((name[-14:], ci.currsize, ci.hits > 0))
        hits += ci.hits
    for slot in sorted(objs):
        obj, opener = objs[slot]
        if opener == 'xarray' or obj is None:
            continue
        try:
            cc = obj._read_containing_chunk_cached.cache_info()
            hits += cc.hits
            sig.append((slot, min(cc.currsize, 3), cc.hits > 0, obj.loader.compressed_volume is not None,
                        min(len(obj.variant_headers), 3), obj.mask is not None, obj.include_padding))
        except Exception:
            sig.append((slot, 'opaque'))
    return tuple(sig), hits


def gen_params(ctx, run, entry=None):
    """Everything the workload stream decides for a run (one place, so that the crash attribution and
    the evidence samples regenerate exactly what the worker executed)."""
    wl = core.stream(ctx['seed'], run, 'workload')
    e = entry or ctx['lib'][wl.randrange(len(ctx['lib']))]
    two = wl.random() < ctx['p_two_threads']
    xr_ok = wl.random() < ctx['p_xarray']
    n_ops = wl.choice([5, 8, 12, 20, 30, 40])
    policy = wl.choice(core.POLICIES)
    sib_ok = wl.random() < ctx.get('p_sibling', 0) and e.get('sibling') is not None
    fl = wl.random()
    flavour = 'traces' if fl < 0.1 else ('headers' if fl < 0.2 else None)
    if flavour == 'headers' and entry is None and e['meta']['kind'] == '3d' and wl.random() < 0.6:
        odd = [x for x in ctx['lib'] if x['meta']['kind'] in ('irreg', '2d')]
        if odd:
            e = odd[wl.randrange(len(odd))]
            sib_ok = sib_ok and e.get('sibling') is not None
    ops = histories.gen_history(wl, e['meta'], n_ops, two_threads=two, xarray_ok=xr_ok, sibling_ok=sib_ok, nudge=True,
                                flavour=flavour, faults=wl.random() < (0.6 if flavour == 'headers' else 0.25))
    other_entry = None
    if not two and wl.random() < ctx.get('p_other', 0):
        # a reader on another file of the library takes part (process-wide state keyed by something that two
        # files can share would show as a wrong value on either)
        o = ctx['lib'][wl.randrange(len(ctx['lib']))]
        if o is not e:
            ops = histories.add_other(wl, ops, o['meta'])
            other_entry = o
    pre_p = wl.choice([0, 0.01]) if two else 0     # half of the two-caller histories pre-empt at line level
    return e, two, policy, ops, ([pre_p, f"{ctx['seed']}:{run}"] if pre_p else None), other_entry


def one_run(ctx, run, ops=None, trace=None, entry=None, preempt='gen', other_entry='gen'):
    seed = ctx['seed']
    e, two, policy, gen_ops, gen_pre, gen_other = gen_params(ctx, run, entry)
    if preempt == 'gen':
        preempt = gen_pre
    if other_entry == 'gen':
        other_entry = gen_other
    m = e['meta']
    if ops is None:
        ops = gen_ops
    sibling = e.get('sibling') if histories.uses_sibling(ops) else None
    other = other_entry['data'] if (other_entry is not None and histories.uses_other(ops)) else None
    truth = histories.truth_for(e['data'], ops, sibling=sibling, other=other)
    chooser = core.ReplayChooser(trace) if trace is not None else \
        core.make_chooser(policy, core.stream(seed, run, 'schedule'), est_steps=300)
    states = set()
    probes = collections.Counter()
    live = {}
    prev_hits = [0]
    last_by_slot = {}

    def observer(i, op, opener, obj, reqs, out):
        if op[0] == 'open' and obj is not None:
            live[op[1]] = (obj, opener)
        elif op[0] == 'close':
            live.pop(op[1], None)
            prev_hits[0] = 0
            probes['close_between_calls'] += 1
        sig, hits = cache_state(live)
        if hits > prev_hits[0]:
            states.add(hash(sig))
            probes['op_with_cache_hit'] += 1
            for name, ci in readers.cache_infos().items():
                if ci.hits:
                    probes['hit:' + name] += 0  # presence marker
        prev_hits[0] = hits
        if op[0] == 'call':
            if not reqs and op[2][0] not in ('attr', 'bin_header', 'text_header', 'em_bin', 'em_text'):
                probes['call_served_without_io'] += 1
            prev = last_by_slot.get(op[1])
            if prev is not None and prev != op[2][0]:
                probes['method_switch_on_same_object'] += 1
            last_by_slot[op[1]] = op[2][0]
    outcomes, fs, r = histories.execute(e['data'], ops, chooser, observer=observer, sibling=sibling, preempt=preempt,
                                        other=other)
    if preempt:
        probes['line_level_preemption'] += 1
    if getattr(fs, 'nfaults_fired', 0):
        probes['earlier_read_met_a_storage_fault'] += 1
    rec = {'run': run, 'file': e['name'], 'layout': f"{m['kind']}/{m['layout']}", 'ops': len(ops), 'calls': 0,
           'states': sorted(states), 'probes': dict(probes), 'violation': None, 'two_threads': two,
           'ed': r.sched.digest(), 'simtime': r.sched.clock, 'status': r.status}
    if r.status != 'ok':
        rec['violation'] = _viol(e, ops, None, f'history-{r.status}', f'history execution ended with {r.status}', r, m)
        rec['violation']['preempt'] = preempt
        rec['violation']['other'] = _other_ref(other_entry)
        return rec
    openers = {}
    seen_calls = collections.Counter()
    for i, op in enumerate(ops):
        if op[0] == 'open':
            openers[op[1]] = op[2]
            if outcomes[i] is not None and outcomes[i][0] == 'exc':
                rec['violation'] = _viol(e, ops, i, 'open-raised:' + outcomes[i][1],
                                         f'open via {op[2]} raised {outcomes[i][1]}', r, m)
                return rec
        elif op[0] == 'call' and outcomes[i] is not None:
            rec['calls'] += 1
            kind = histories.kind_of_opener(openers[op[1]])
            want = truth[(kind, repr(op[2]))]
            got = outcomes[i]
            seen_calls[(op[1], repr(op[2]))] += 1
            if got != want and not (got[0] == 'exc' and want[0] == 'exc'):
                # (two exceptions of different classes are not a different *returned value*: the property
                # speaks of values; which error a refused call reports is not compared)
                if got[0] == 'exc' and want[0] == 'ok':
                    cls = 'raised:' + got[1]
                elif got[0] == 'ok' and want[0] == 'exc':
                    cls = 'returned-instead-of-' + want[1]
                else:
                    cls = 'wrong-value'
                rec['violation'] = _viol(e, ops, i, cls, f'op {i} {op[2]} via {openers[op[1]]} gave {got}, fresh '
                                                        f'reader gives {want}', r, m)
                rec['violation']['preempt'] = preempt
                rec['violation']['other'] = _other_ref(other_entry)
                return rec
    if any(v > 1 for v in seen_calls.values()):
        rec['probes']['identical_call_repeated_on_same_object'] = 1
    on_sib = {c for (slot, c) in seen_calls if slot == 6}
    if on_sib and on_sib & {c for (slot, c) in seen_calls if slot in (0, 1, 2, 3)}:
        rec['probes']['same_call_on_file_and_sibling'] = 1
    kinds = {histories.kind_of_opener(o) for o in openers.values()}
    for k in kinds:
        rec['probes']['kind:' + k] = 1
    for o in set(openers.values()):
        rec['probes']['opener:' + o] = 1
    return rec


def _other_ref(o):
    return None if o is None else {'file': o['name'], 'spec': o['spec']}


def _viol(e, ops, i, cls, what, r, m):
    name = ops[i][2][0] if (i is not None and ops[i][0] == 'call') else 'open'
    return {'signature': f"{m['layout']}|{m['kind']}|{name}|{cls}", 'what': what, 'file': e['name'], 'spec': e['spec'],
            'ops': ops[:i + 1] if i is not None else ops, 'trace': list(r.sched.trace), 'index': i}


# --------------------------------------------------------------------------------------------
# replay / minimise
# --------------------------------------------------------------------------------------------

def replay_doc(doc, data):
    m = filelib.read_meta(data)
    e = {'name': doc['file'], 'data': data, 'meta': m, 'spec': doc['spec'], 'sibling': filelib.make_sibling(data, m)}
    ctx = {'seed': doc.get('seed', 0), 'lib': [e], 'p_two_threads': 0, 'p_xarray': 0}
    rec = one_run(ctx, doc.get('run', 0), ops=[list(o) for o in doc['ops']], trace=doc['trace'], entry=e,
                  preempt=doc.get('preempt'), other_entry=doc.get('_other_entry'))
    v = rec['violation']
    if not v:
        return None, ''
    return v['signature'], v['what']


def minimise(doc, data):
    want = doc['signature']

    def ok(d):
        try:
            return replay_doc(d, data)[0] == want
        except Exception:
            return False
    if not ok(doc):
        return doc, False
    d = dict(doc)
    ops = [list(o) for o in d['ops']]
    last = ops[-1]

    def test_ops(sub):
        t = dict(d)
        t['ops'] = sub + [last]
        return ok(t)
    small = common.ddmin_list(ops[:-1], test_ops, max_tests=250)
    d['ops'] = small + [last]

    def test_trace(tr):
        t = dict(d)
        t['trace'] = tr
        return ok(t)
    tr = common.minimise_positions(list(d['trace']), None, test_trace, max_tests=100)
    while tr and tr[-1] is None:
        tr.pop()
    d['trace'] = tr
    d['what'] = replay_doc(d, data)[1]
    return d, True


def _with_other(doc, scratch):
    if doc.get('other') and '_other_entry' not in doc:
        od = load_file(doc['other'], scratch)
        doc = dict(doc, _other_entry={'name': doc['other']['file'], 'data': od, 'meta': filelib.read_meta(od),
                                      'spec': doc['other']['spec']})
    return doc


def _child(doc, scratch, q):
    try:
        doc = _with_other(doc, scratch)
        q.put(replay_doc(doc, load_file(doc, scratch)))
    except BaseException as e:
        q.put(('error', repr(e)))


def cmd_replay(path):
    import multiprocessing
    doc = json.load(open(path))
    scratch = tempfile.mkdtemp(prefix='verif_c15_')
    try:
        mp = multiprocessing.get_context('fork')
        q = mp.SimpleQueue()
        p = mp.Process(target=_child, args=(doc, scratch, q))
        p.start()
        p.join(600)
        if p.exitcode is None:
            p.kill()
            common.harness_exit('replay timed out')
        if p.exitcode != 0:
            sig, what = 'worker_crash', f'the reading process died with exit code {p.exitcode}'
        else:
            sig, what = q.get()
            if sig == 'error':
                common.harness_exit(f'replay failed: {what}')
    finally:
        shutil.rmtree(scratch, ignore_errors=True)
    if sig == doc['signature']:
        print(f'VIOLATION property={PID} replay={path}')
        print(f'  signature={sig} :: {what}')
        return 1
    print(f'replay did not reproduce: expected {doc["signature"]}, got {sig}')
    return 0 if sig is None else 1


# --------------------------------------------------------------------------------------------
# main
# --------------------------------------------------------------------------------------------

def main(tier, seed):
    t0 = time.time()
    scratch = tempfile.mkdtemp(prefix='verif_c15_')
    try:
        return _main(tier, seed, scratch, t0)
    finally:
        shutil.rmtree(scratch, ignore_errors=True)


def _main(tier, seed, scratch, t0):
    quick = tier == 'quick'
    lib = filelib.build(seed, scratch, n_random=6 if quick else 60, big=True)
    for e in lib:
        e['sibling'] = filelib.make_sibling(e['data'], e['meta'])
    ctx = {'seed': seed, 'lib': lib, 'p_two_threads': 0.15 if quick else 0.3, 'p_xarray': 0.1, 'p_sibling': 0.3,
           'p_other': 0.2}
    for run in range(10 ** 6, 10 ** 6 + (6 if quick else 30)):
        a, b = one_run(ctx, run), one_run(ctx, run)
        if a['ed'] != b['ed'] or a['states'] != b['states']:
            common.harness_exit(f'nondeterminism: history {run} of seed {seed} executed twice gave different logs')
    n = int(os.environ.get('VERIF_RUNS', '20000' if quick else '4000000'))
    deadline = time.time() + common.budget_s(120 if quick else 1200)
    mark_dir = os.path.join(scratch, 'marks')
    os.makedirs(mark_dir)
    results, skipped, crashed = common.run_parallel(one_run, ctx, range(n), deadline=deadline, chunk=25,
                                                    mark_dir=mark_dir)
    calls = ops = 0
    states = set()
    probes = collections.Counter()
    layouts = collections.Counter()
    viols = {}
    samples = []
    simtime = 0.0
    nontrivial_histories = 0
    for run, rec in results:
        calls += rec['calls']
        ops += rec['ops']
        states.update(rec['states'])
        probes.update(rec['probes'])
        layouts[rec['layout']] += 1
        simtime += rec['simtime']
        if rec['states']:
            nontrivial_histories += 1
        if rec['violation']:
            viols.setdefault(rec['violation']['signature'], []).append((run, rec['violation']))
    for c in crashed:
        run = c['item']
        e, _, _, ops, _, _ = gen_params(ctx, run)
        viols.setdefault('worker_crash', []).append((run, {
            'signature': 'worker_crash', 'what': 'the reading process died while executing this history',
            'file': e['name'], 'spec': e['spec'], 'ops': ops, 'trace': [], 'index': None, 'crash': True}))
    for run in (0, 1, 2):
        e, _, _, ops, _, _ = gen_params(ctx, run)
        samples.append({'run': run, 'file': e['name'], 'history': ops[:14]})
    known = common.load_known(PID)
    reported = []
    for sig, lst in sorted(viols.items()):
        run, v = min(lst, key=lambda x: (len(x[1]['ops']), x[0]))
        doc = dict(v, property=PID, seed=seed, run=run, occurrences=len(lst))
        if sig not in known and len(reported) < 8 and not v.get('crash'):
            try:
                doc = _with_other(doc, scratch)
                doc, ok = minimise(doc, load_file(doc, scratch))
                doc.pop('_other_entry', None)
                doc['minimised'] = ok
            except Exception as ex:
                doc['minimised'] = False
                doc['minimise_error'] = repr(ex)
        doc.pop('_other_entry', None)
        path = common.write_replay(PID, seed, f"{run}-{common.sha(sig.encode())[:8]}", doc)
        reported.append({'signature': sig, 'replay': path, 'what': doc.get('what', '')})
    expected = ['op_with_cache_hit', 'call_served_without_io', 'close_between_calls', 'method_switch_on_same_object',
                'identical_call_repeated_on_same_object', 'kind:reader', 'kind:emulator', 'kind:xarray', 'kind:sibling',
                'kind:other', 'earlier_read_met_a_storage_fault',
                'same_call_on_file_and_sibling',
                'opener:preload', 'opener:ccs1', 'opener:ccs2', 'opener:blob', 'opener:emulator', 'opener:handle']
    wall = time.time() - t0
    coverage = {
        'evaluations': calls,
        'distinct_nontrivial': len(states),
        'rule': 'one evaluation = one read operation of a history compared with the fresh-reader truth; '
                'distinct_nontrivial = distinct abstract cache states (per class-level loader cache: occupied / hit; per '
                'open object: chunk-LRU fill, preload, cached footer arrays, mask, padding mode) observed right after an '
                'operation that was served at least partly from a cache',
        'samples': samples,
        'histories': len(results),
        'histories_with_a_cache_hit': nontrivial_histories,
        'operations': ops,
        'layouts': dict(layouts),
        'probes': {k: v for k, v in sorted(probes.items())},
        'unreached': [p for p in expected if not probes.get(p)],
        'files_in_library': len(lib),
        'histories_skipped_for_budget': len(skipped),
        'fault_counts': {'histories_in_which_an_earlier_read_met_a_one_shot_storage_fault':
                         probes.get('earlier_read_met_a_storage_fault', 0),
                         'note': 'the faulted read itself is not judged (C17 does that); every later read of the history is'},
        'runs_per_hour': int(len(results) / max(1e-9, wall) * 3600),
        'simulated_time_s': round(simtime, 2),
        'determinism_selftest': {'histories_repeated_in_process': 6 if quick else 30, 'mismatches': 0},
        'components_real': ['seismic_zfp readers / loaders / emulator / accessors / xarray backend', 'zfpy', 'numpy',
                            'xarray'],
        'components_stubbed': ['open -> SimFS', 'BlobClient -> SimBlob', 'concurrent.futures -> SimExecutor',
                               'threading (second caller) -> SimThread'],
        'known_findings_matched': sorted(s for s in viols if s in known),
    }
    nviol = sum(1 for v in reported if v['signature'] not in known)
    common.write_evidence(PID, tier, seed, 'exploration', coverage, ASSUMPTIONS, wall, nviol)
    code = common.conclude(PID, reported, known)
    print(f'{PID} {tier}: {len(results)} histories, {calls} reads compared, {len(states)} distinct cache states with hits, '
          f'unreached: {coverage["unreached"]}, {wall:.0f}s, exit {code}')
    return code


def selftest_digests(seed, n, scratch):
    lib = filelib.build(seed, scratch, n_random=4)
    for e in lib:
        e['sibling'] = filelib.make_sibling(e['data'], e['meta'])
    ctx = {'seed': seed, 'lib': lib, 'p_two_threads': 0.3, 'p_xarray': 0.1, 'p_sibling': 0.3, 'p_other': 0.2}

    def f(c, run):
        r = one_run(c, run)
        return r['ed'] + ':' + str(len(r['states'])) + ':' + str(r['violation'] and r['violation']['signature'])
    results, _, _ = common.run_parallel(f, ctx, range(n), chunk=7)
    return [d for _, d in sorted(results)]
