"""C07 — I/O proportionality: a read touches only the disk blocks holding what it needs.

The (offset, length) requests that every operation of a seeded history sends to the simulated file /
blob are compared with the *needed set* computed by model/layout.py, an executable layout model
written from docs/file-specification.md that shares no code with the library.
"""
import collections
import json
import os
import shutil
import struct
import tempfile
import time

from sim import core, storage, env
from model import layout as lmodel
from . import common, filelib, battery, readers, histories
from .c17 import load_file

PID = 'C07'

ASSUMPTIONS = [
    'needed sets come from model/layout.py (header fields, block index arithmetic, footer array order) written from '
    'docs/file-specification.md and README, not from loader.py',
    'allowances: open may read header block 0 before it knows the header length; on an irregular 3D file a trace- or '
    'header-by-ordinal call may additionally read the stored inline-number array (population mask) once; irregular '
    'and 2D files regenerate headers from whole arrays; load_all_headers=True asks for whole arrays',
    'the no-byte-twice rule is applied to single read calls, not to accessor slice expressions (a slice is a '
    'sequence of reads) and not to open',
    'readers with chunk-cache sizes 1, 2 and default take part: the needed set bounds what any of them may fetch',
    'exact equality of touched and needed blocks is demanded for the first call that reaches a freshly opened '
    'reader (certainly cold); later calls must stay inside the needed set',
]

NO_IO = ('attr', 'bin_header', 'text_header', 'em_bin', 'em_text')


class FileModel:
    """Layout model of one file + what the harness needs to translate calls (axes, population mask)."""

    def __init__(self, data, meta):
        self.L = lmodel.Layout(data[:8192])
        self.m = meta
        L = self.L
        self.populated = None
        if not L.is_2d and not L.structured and 189 in L.field_array:
            lo, hi = L.array_range(L.field_array[189])
            vals = struct.unpack(f'<{(hi - lo) // 4}i', data[lo:hi])
            self.populated = [p for p, v in enumerate(vals) if v != 0]

    # -- translation of a battery call into needed (blocks, footer ranges, flags) ---------------
    def needed(self, call):
        """Returns dict(blocks=set, footer=[ranges], mask_ok=bool, slice_expr=bool, exact_footer=bool)."""
        L, m = self.L, self.m
        name, a = call[0], call[1:]
        out = {'blocks': set(), 'footer': [], 'mask_ok': False, 'slice_expr': False}

        def add(c):
            b, f = L.needed(c)
            out['blocks'] |= b
            for r in f:
                if r not in out['footer']:
                    out['footer'].append(r)

        def il_index(no):
            return m['ilines'].index(no)

        def xl_index(no):
            return m['xlines'].index(no)

        def z_index(c, stop=False):
            zs = m['zslices']
            if c in zs:
                return zs.index(c)
            if stop:
                return len(zs)
            raise ValueError(c)

        def trace(idx, z0=None, z1=None):
            if L.is_2d:
                add(['trace2d', idx])
                return
            if self.populated is not None:
                out['mask_ok'] = True
                pos = self.populated[idx]
            else:
                pos = idx
            il, xl = divmod(pos, L.n_xl)
            add(['trace_chunk', il, xl, 0 if z0 is None else z0, L.n_s if z1 is None else z1])

        def header(idx, load_all=False):
            if L.is_2d:
                add(['header_arrays'])
            elif not L.structured:
                out['mask_ok'] = True
                add(['header_arrays'])
            elif load_all:
                add(['header_arrays'])
            else:
                add(['header4', idx])

        def rng(sl, n):
            if isinstance(sl, list):
                return range(*slice(*sl).indices(n))
            return [sl + n if sl < 0 else sl]

        if name in NO_IO:
            return out
        if name == 'read_inline':
            add(['read_inline', a[0]])
        elif name == 'read_inline_number':
            add(['read_inline', il_index(a[0])])
        elif name == 'read_crossline':
            add(['read_crossline', a[0]])
        elif name == 'read_crossline_number':
            add(['read_crossline', xl_index(a[0])])
        elif name == 'read_zslice':
            add(['read_zslice', a[0]])
        elif name == 'read_zslice_coord':
            add(['read_zslice', z_index(a[0])])
        elif name in ('read_subvolume', 'read_volume', 'read_subplane'):
            add(call)
        elif name == 'get_trace':
            trace(a[0], *(a[1:3] if len(a) >= 3 else ()))
        elif name == 'get_trace_by_coord':
            trace(a[0], z_index(a[1]), z_index(a[2], stop=True))
        elif name in ('read_correlated_diagonal', 'read_anticorrelated_diagonal'):
            traces = battery.diagonal_traces('c' if name == 'read_correlated_diagonal' else 'a', a[0], L.n_il, L.n_xl)
            crop = list(a[1:]) + [None] * (4 - len(a[1:]))
            if crop[0] is not None and crop[1] is not None:
                traces = traces[crop[0]:crop[1]]
            z0, z1 = (crop[2], crop[3]) if crop[2] is not None and crop[3] is not None else (0, L.n_s)
            for il, xl in traces:
                add(['trace_chunk', il, xl, z0, z1])
        elif name == 'gen_trace_header':
            header(a[0])
        elif name == 'gen_trace_header_all':
            header(a[0], load_all=True)
        elif name in ('get_tracefield_values', 'em_attributes'):
            add(['field_array', a[0]])
        elif name in ('tracefield_sweep', 'em_attributes_sweep'):
            out['slice_expr'] = True
            for f in battery.ALL_FIELDS:
                add(['field_array', f])
        elif name == 'header_sweep':
            out['slice_expr'] = True
            for t in a[0]:
                header(t)
        elif name == 'em_iline':
            if isinstance(a[0], list):
                out['slice_expr'] = True
                for no in range(a[0][0], a[0][1], a[0][2]):
                    add(['read_inline', il_index(no)])
            else:
                add(['read_inline', il_index(a[0])])
        elif name == 'em_xline':
            if isinstance(a[0], list):
                out['slice_expr'] = True
                for no in range(a[0][0], a[0][1], a[0][2]):
                    add(['read_crossline', xl_index(no)])
            else:
                add(['read_crossline', xl_index(a[0])])
        elif name == 'em_depth':
            out['slice_expr'] = isinstance(a[0], list)
            for z in rng(a[0], L.n_s):
                add(['read_zslice', z])
        elif name == 'em_trace':
            out['slice_expr'] = isinstance(a[0], list)
            for t in rng(a[0], L.tracecount):
                trace(t)
        elif name == 'em_header':
            out['slice_expr'] = isinstance(a[0], list)
            for t in rng(a[0], L.tracecount):
                header(t)
        elif name == 'em_subvolume':
            box = []
            for sl, coords in zip(a, (m['ilines'], m['xlines'], [int(z) for z in m['zslices']])):
                lo = 0 if sl[0] is None else coords.index(sl[0])
                hi = len(coords) if (sl[1] is None or sl[1] not in coords) else coords.index(sl[1])
                box += [lo, hi]
            add(['read_subvolume'] + box)
        elif name == 'xr_isel':
            box = []
            for sl, n in zip(a, (L.n_il, L.n_xl, L.n_s)):
                r = rng(sl, n)
                box += [r[0], r[-1] + 1]
            add(['read_subvolume'] + box)
        else:
            raise core.HarnessError(f'layout model has no rule for call {name}')
        return out


def route_of(call):
    """Which of an emulator's internal readers serves the call."""
    return {'em_iline': 'iline', 'em_xline': 'xline', 'em_depth': 'depth', 'em_trace': 'trace',
            'em_header': 'header', 'em_subvolume': 'subvolume'}.get(call[0], 'self')


def merged(ranges):
    out = []
    for a, b in sorted(ranges):
        if out and a <= out[-1][1]:
            out[-1][1] = max(out[-1][1], b)
        else:
            out.append([a, b])
    return [tuple(x) for x in out]


def inside(lo, hi, ranges):
    """[lo, hi) lies within the union of the ranges."""
    for a, b in merged(ranges):
        if a <= lo and hi <= b:
            return True
    return False


def overlaps(lo, hi, ranges):
    return any(lo < b and a < hi for a, b in ranges)


def readers_kind(opener):
    return 'xarray' if opener == 'xarray' else readers.OPENERS[opener]['kind']


def check_op(fm, op, opener, reqs, state, slot_key):
    """Checks the requests of one operation.  Returns (violation name or None, description, key)."""
    L = fm.L
    backend = 'blob' if opener != 'xarray' and readers.OPENERS[opener].get('via') == 'blob' else 'file'
    preload = opener != 'xarray' and readers.OPENERS[opener].get('preload', False)
    rr = [(r[3], r[3] + r[4]) for r in reqs]
    data_rng = (L.data_start, L.data_end)
    pre_key = ('preload-done',) + tuple(slot_key[:2])
    if op[0] == 'open':
        hdr = L.header_range()
        got = state.setdefault('pre_bytes', {}).setdefault(pre_key, [])
        for lo, hi in rr:
            if hi <= hdr[1]:
                continue
            if preload and data_rng[0] <= lo and hi <= data_rng[1]:
                # "with preload the data section is fetched exactly once": in one request or in disjoint pieces
                if overlaps(lo, hi, got):
                    return 'preload-not-once', (f'open with preload requested data bytes [{lo},{hi}) that it had '
                                                f'already fetched'), None
                got.append((lo, hi))
                continue
            return 'open-outside-header', f'open via {opener} requested bytes [{lo},{hi}) outside the header blocks', None
        return None, '', ('open', backend, preload)
    if op[0] != 'call':
        return None, '', None
    call = op[2]
    need = fm.needed(call)
    blocks_rng = [L.block_range(k) for k in sorted(need['blocks'])]
    mask_rng = []
    if need['mask_ok']:
        mask_rng = L.needed(['mask'])[1]
    touched = set()
    foot = []
    for lo, hi in rr:
        if lo >= L.data_start and hi <= L.data_end:
            if preload:
                # a preload reader may fetch any part of the data section (at open, or lazily later), but each byte
                # at most once in its lifetime: "fetched exactly once and never again"
                got = state.setdefault('pre_bytes', {}).setdefault(pre_key, [])
                if overlaps(lo, hi, got):
                    return 'preload-refetch', (f'{call} on a preload reader requested data bytes [{lo},{hi}) that this '
                                               f'reader had already fetched'), None
                got.append((lo, hi))
                touched.update(need['blocks'])
                continue
            ks = range((lo - L.data_start) // 4096, (hi - 1 - L.data_start) // 4096 + 1)
            for k in ks:
                if k not in need['blocks']:
                    return 'outside-needed-set', (f'{call} requested [{lo},{hi}): data block {k} holds nothing the call '
                                                  f'needs (needed blocks {sorted(need["blocks"])[:12]}...)'), None
                touched.add(k)
        elif lo >= L.data_end:
            if inside(lo, hi, need['footer']) or inside(lo, hi, mask_rng):
                foot.append((lo, hi))
            else:
                return 'outside-needed-set', (f'{call} requested footer bytes [{lo},{hi}) outside the needed ranges '
                                              f'{need["footer"][:6]}'), None
        else:
            return 'outside-needed-set', f'{call} requested bytes [{lo},{hi}) straddling a section boundary / header', None
    for mr in mask_rng:
        n_req = rr.count(mr)
        allowed = (1 if mr in need['footer'] else 0) + (1 if slot_key not in state.setdefault('mask', set()) else 0)
        if n_req > allowed:
            return 'mask-fetched-again', (f'{call} requested the inline-number array (population mask) {n_req} times; this '
                                          f'reader object had {"not " if allowed else ""}fetched it before'), None
        if n_req > (1 if mr in need['footer'] else 0):
            state['mask'].add(slot_key)
    if not need['slice_expr']:
        seen = []
        rr2 = list(rr)
        for mr in mask_rng:          # documented allowance: the population mask may be fetched once extra
            if mr in rr2:
                rr2.remove(mr)
        for lo, hi in sorted(rr2):
            if seen and lo < seen[-1]:
                return 'byte-fetched-twice', f'{call} requested bytes [{lo},{min(hi, seen[-1])}) more than once', None
            seen.append(hi)
    # "certainly cold" = nothing has been asked of this object yet.  For the emulator that is the whole
    # object, not the accessor: whether its accessors keep separate caches is an implementation choice
    cold_key = slot_key[:2] if readers_kind(opener) == 'emulator' else slot_key
    cold = cold_key not in state['warm'] and slot_key not in state['warm']
    state['warm'].add(slot_key)
    state['warm'].add(cold_key)
    if cold and call[0] not in NO_IO:
        if not preload and touched != need['blocks']:
            missing = sorted(need['blocks'] - touched)[:8]
            return 'cold-read-incomplete', f'{call} on a fresh reader touched {len(touched)} of the {len(need["blocks"])} ' \
                                           f'needed blocks (missing {missing})', None
        want = merged(need['footer'])
        got = merged(f for f in foot if not inside(f[0], f[1], mask_rng) or inside(f[0], f[1], need['footer']))
        if want != got and not (need['mask_ok'] and merged(foot) == merged(list(need['footer']) + mask_rng)):
            if call[0] in ('gen_trace_header', 'em_header') and L.structured:
                return 'header-not-4-bytes-per-array', f'{call} requested {got[:6]}, needed exactly {want[:6]}', None
            return 'cold-footer-mismatch', f'{call} requested footer ranges {got[:6]}, needed {want[:6]}', None
    key = (fm.L.layout, call[0], 'cold' if cold else 'warm', backend, bool(preload)) if rr else None
    return None, '', key


# one history in eight also pre-empts at source-line level (an unlocked read-modify-write between two pool
# workers duplicates a request only when one of them is descheduled between two lines)
PREEMPT_CHOICES = [0, 0, 0, 0, 0, 0, 0, 0.02]


def one_run(ctx, run, ops=None, trace=None, entry=None, preempt='gen'):
    seed = ctx['seed']
    wl = core.stream(seed, run, 'workload')
    e = entry or ctx['lib'][wl.randrange(len(ctx['lib']))]
    m = e['meta']
    xr_ok = wl.random() < 0.1
    n_ops = wl.choice([4, 6, 10, 16, 24])
    policy = wl.choice(core.POLICIES)
    flavour = 'traces' if wl.random() < 0.15 else None
    if flavour:
        n_ops = wl.choice([16, 24, 40])
    pre_p = wl.choice(PREEMPT_CHOICES)
    if preempt == 'gen':
        preempt = [pre_p, f'{seed}:{run}'] if pre_p else None
    if ops is None:
        ops = histories.gen_history(wl, m, n_ops, reader_openers=histories.READER_OPENERS_C07,
                                    emu_openers=histories.EMU_OPENERS_C07, xarray_ok=xr_ok, flavour=flavour,
                                    faults=wl.random() < 0.2)
    fm = FileModel(e['data'], m)
    chooser = core.ReplayChooser(trace) if trace is not None else \
        core.make_chooser(policy, core.stream(seed, run, 'schedule'), est_steps=300)
    state = {'warm': set()}
    found = []
    keys = set()
    gen = {}
    counts = collections.Counter()

    def observer(i, op, opener, obj, reqs, out):
        if found:
            return
        if op[0] == 'open':
            gen[op[1]] = gen.get(op[1], 0) + 1
        if op[0] == 'fcall' and op[3][1] == 'stall' and out[0] == 'ok':
            op = ['call', op[1], op[2]]       # storage answered in full, only late: the accounting applies as ever
            counts['calls_with_a_stalled_request'] += 1
        if op[0] == 'fcall':
            state['warm'].add((op[1], gen.get(op[1], 0), route_of(op[2])))
            state['warm'].add((op[1], gen.get(op[1], 0)))
            return
        if op[0] == 'call':
            if out[0] == 'exc':
                counts['call_raised'] += 1
                # out-of-range arguments and the like are not C07's subject, but the call may have
                # filled caches before it raised: the reader is no longer certainly cold
                state['warm'].add((op[1], gen.get(op[1], 0), route_of(op[2])))
                state['warm'].add((op[1], gen.get(op[1], 0)))
                return
            counts['calls_checked'] += 1
            if not reqs:
                counts['call_without_io'] += 1
        slot_key = (op[1], gen.get(op[1], 0), route_of(op[2]) if op[0] == 'call' else 'open')
        try:
            v, what, key = check_op(fm, op, opener, reqs, state, slot_key)
        except core.HarnessError:
            raise
        except (ValueError, IndexError, KeyError) as ex:
            counts['model_skipped_call'] += 1
            return
        if key:
            keys.add(key)
        if v:
            found.append((i, v, what))
    outcomes, fs, r = histories.execute(e['data'], ops, chooser, observer=observer, preempt=preempt)
    if preempt:
        counts['histories_with_line_level_preemption'] += 1
    if flavour:
        counts['trace_walk_histories'] += 1
    rec = {'run': run, 'file': e['name'], 'layout': f"{m['kind']}/{m['layout']}", 'ops': len(ops), 'keys': sorted(keys),
           'counts': dict(counts), 'violation': None, 'ed': r.sched.digest(), 'requests': len(fs.reqlog),
           'simtime': r.sched.clock}
    if r.status != 'ok':
        found.append((len(ops) - 1, f'history-{r.status}', f'history execution ended with {r.status}'))
    if found:
        i, v, what = found[0]
        name = ops[i][2][0] if ops[i][0] in ('call', 'fcall') else ops[i][0]
        rec['violation'] = {'signature': f"{m['layout']}|{m['kind']}|{name}|{v}", 'what': what, 'file': e['name'],
                            'spec': e['spec'], 'ops': ops[:i + 1], 'trace': list(r.sched.trace), 'index': i,
                            'preempt': preempt}
    return rec


def replay_doc(doc, data):
    m = filelib.read_meta(data)
    e = {'name': doc['file'], 'data': data, 'meta': m, 'spec': doc['spec']}
    rec = one_run({'seed': doc.get('seed', 0), 'lib': [e]}, doc.get('run', 0), ops=[list(o) for o in doc['ops']],
                  trace=doc['trace'], entry=e, preempt=doc.get('preempt'))
    v = rec['violation']
    return (v['signature'], v['what']) if v else (None, '')


def minimise(doc, data):
    want = doc['signature']

    def ok(d):
        try:
            return replay_doc(d, data)[0] == want
        except Exception:
            return False
    if not ok(doc):
        return doc, False
    d = dict(doc)
    ops = [list(o) for o in d['ops']]
    last = ops[-1]
    small = common.ddmin_list(ops[:-1], lambda sub: ok(dict(d, ops=sub + [last])), max_tests=200)
    d['ops'] = small + [last]
    tr = common.minimise_positions(list(d['trace']), None, lambda t: ok(dict(d, trace=t)), max_tests=60)
    while tr and tr[-1] is None:
        tr.pop()
    d['trace'] = tr
    d['what'] = replay_doc(d, data)[1]
    return d, True


def cmd_replay(path):
    doc = json.load(open(path))
    scratch = tempfile.mkdtemp(prefix='verif_c07_')
    try:
        sig, what = replay_doc(doc, load_file(doc, scratch))
    finally:
        shutil.rmtree(scratch, ignore_errors=True)
    if sig == doc['signature']:
        print(f'VIOLATION property={PID} replay={path}')
        print(f'  signature={sig} :: {what}')
        return 1
    print(f'replay did not reproduce: expected {doc["signature"]}, got {sig}')
    return 0 if sig is None else 1


def main(tier, seed):
    t0 = time.time()
    scratch = tempfile.mkdtemp(prefix='verif_c07_')
    try:
        return _main(tier, seed, scratch, t0)
    finally:
        shutil.rmtree(scratch, ignore_errors=True)


def _main(tier, seed, scratch, t0):
    quick = tier == 'quick'
    lib = filelib.build(seed, scratch, n_random=8 if quick else 80, big=True)
    ctx = {'seed': seed, 'lib': lib}
    for run in range(10 ** 6, 10 ** 6 + (6 if quick else 30)):
        a, b = one_run(ctx, run), one_run(ctx, run)
        if a['ed'] != b['ed'] or a['keys'] != b['keys']:
            common.harness_exit(f'nondeterminism: history {run} of seed {seed} executed twice gave different logs')
    n = int(os.environ.get('VERIF_RUNS', '50000' if quick else '8000000'))
    deadline = time.time() + common.budget_s(120 if quick else 1200)
    results, skipped, _ = common.run_parallel(one_run, ctx, range(n), deadline=deadline, chunk=25)
    keys = set()
    counts = collections.Counter()
    layouts = collections.Counter()
    viols = {}
    nreq = nops = 0
    simtime = 0.0
    for run, rec in results:
        keys.update(map(tuple, rec['keys']))
        counts.update(rec['counts'])
        layouts[rec['layout']] += 1
        nreq += rec['requests']
        nops += rec['ops']
        simtime += rec['simtime']
        if rec['violation']:
            viols.setdefault(rec['violation']['signature'], []).append((run, rec['violation']))
    known = common.load_known(PID)
    reported = []
    for sig, lst in sorted(viols.items()):
        run, v = min(lst, key=lambda x: (len(x[1]['ops']), x[0]))
        doc = dict(v, property=PID, seed=seed, run=run, occurrences=len(lst))
        if sig not in known and len(reported) < 8:
            try:
                doc, ok = minimise(doc, load_file(doc, scratch))
                doc['minimised'] = ok
            except Exception as ex:
                doc['minimised'] = False
                doc['minimise_error'] = repr(ex)
        path = common.write_replay(PID, seed, f"{run}-{common.sha(sig.encode())[:8]}", doc)
        reported.append({'signature': sig, 'replay': path, 'what': doc.get('what', '')})
    samples = []
    for run in (0, 1):
        rec = one_run(ctx, run)
        wl = core.stream(seed, run, 'workload')
        samples.append({'run': run, 'file': rec['file'], 'ops': rec['ops'], 'range_requests': rec['requests'],
                        'coverage_keys': rec['keys'][:8]})
    wall = time.time() - t0
    cold = sum(1 for k in keys if len(k) > 2 and k[2] == 'cold')
    coverage = {
        'evaluations': counts.get('calls_checked', 0),
        'distinct_nontrivial': len(keys),
        'rule': 'one evaluation = one read operation of a history whose range requests were compared with the layout '
                'model; distinct_nontrivial = distinct (layout, call kind, cold/warm, backend, preload) with non-empty I/O',
        'samples': samples,
        'histories': len(results),
        'operations': nops,
        'range_requests_observed': nreq,
        'distinct_cold_keys': cold,
        'counts': dict(counts),
        'layouts': dict(layouts),
        'files_in_library': len(lib),
        'histories_skipped_for_budget': len(skipped),
        'fault_counts': {'none': 'C07 quantifies over inputs, configurations and histories; no fault is injected'},
        'runs_per_hour': int(len(results) / max(1e-9, wall) * 3600),
        'simulated_time_s': round(simtime, 2),
        'determinism_selftest': {'histories_repeated_in_process': 6 if quick else 30, 'mismatches': 0},
        'components_real': ['seismic_zfp readers / loaders / emulator / xarray backend', 'zfpy', 'numpy'],
        'components_stubbed': ['file handle -> SimReadHandle (request log)', 'BlobClient -> SimBlob (request log)',
                               'concurrent.futures -> SimExecutor'],
        'reference_model': 'model/layout.py',
        'known_findings_matched': sorted(s for s in viols if s in known),
    }
    nviol = sum(1 for v in reported if v['signature'] not in known)
    common.write_evidence(PID, tier, seed, 'exploration', coverage, ASSUMPTIONS, wall, nviol)
    code = common.conclude(PID, reported, known)
    print(f'{PID} {tier}: {len(results)} histories, {counts.get("calls_checked", 0)} calls checked against the layout '
          f'model, {nreq} range requests, {len(keys)} distinct (layout, call, cold/warm, backend) keys, {wall:.0f}s, '
          f'exit {code}')
    return code


def selftest_digests(seed, n, scratch):
    lib = filelib.build(seed, scratch, n_random=4)
    ctx = {'seed': seed, 'lib': lib}

    def f(c, run):
        r = one_run(c, run)
        return r['ed'] + ':' + repr(r['keys']) + ':' + str(r['violation'] and r['violation']['signature'])
    results, _, _ = common.run_parallel(f, ctx, range(n), chunk=7)
    return [common.sha(d.encode()) for _, d in sorted(results)]
