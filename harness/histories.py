"""Seeded histories of reads over several reader objects on one file (shared by C15 and C07)."""
import glob
import os

from sim import core, storage, env
from . import battery, readers, filelib

SPATH = storage.PREFIX + 'g.sgz'          # the sibling: another file of the same geometry (C15)
OPATH = storage.PREFIX + 'h.sgz'          # the other: an unrelated file of the library (C15)

HAVE_XARRAY = readers.HAVE_XARRAY
readers.clear_caches()

READER_OPENERS = ['path', 'path', 'preload', 'ccs1', 'ccs2', 'preload_ccs1', 'handle', 'blob', 'blob_preload', 'handle_nofd']
EMU_OPENERS = ['emulator', 'emulator', 'emulator_ccs1', 'emulator_blob', 'emulator_handle', 'emulator_nofd']
# (C07: what a call may fetch is bounded by the same needed set whatever the chunk-cache size)
READER_OPENERS_C07 = ['path', 'path', 'preload', 'handle', 'blob', 'blob_preload', 'ccs1', 'ccs2', 'handle_nofd']
EMU_OPENERS_C07 = ['emulator', 'emulator_blob', 'emulator_ccs1', 'emulator_nofd']


def _trace_walk_call(rng, m, kind, visited):
    """A trace read (whole, sample window, by coordinate; through the accessor for the emulator) that with
    probability 1/2 returns to a trace whose neighbourhood an earlier call of the walk has read."""
    ntr, n_s = m['tracecount'], m['n_s']
    if visited and rng.random() < 0.5:
        t = min(ntr - 1, max(0, rng.choice(visited) + rng.choice([0, 0, 1, -1, 2])))
    else:
        t = battery._idx(rng, ntr, 4)
    visited.append(t)
    if kind == 'emulator':
        return ['em_trace', t]
    if m['is_2d']:
        return ['get_trace', t]
    c = rng.random()
    if c < 0.35:
        return ['get_trace', t]
    e, f = battery._rng_pair(rng, n_s, rng.choice([4, 16, 64, 128, 256]))
    if c < 0.8:
        return ['get_trace', t, e, f]
    zs = m['zslices']
    dz = zs[1] - zs[0] if n_s > 1 else 1.0
    return ['get_trace_by_coord', t, float(zs[e]), float(zs[f]) if f < n_s else float(zs[-1] + dz)]


def _header_state_call(rng, m, kind):
    """One of the handful of call types that share a reader's lazily built header state (cached footer arrays and
    their padding mode, population mask, header template)."""
    ntr = m['tracecount']
    i = rng.choice([ntr - 1, ntr // 2, rng.randrange(ntr), rng.randrange(ntr)])
    f = rng.choice((m['stored'][:4] or [37]) + [37])
    if kind == 'emulator':
        return rng.choice([['em_attributes', f], ['em_header', i], ['em_trace', i], ['em_header', i]])
    return rng.choice([['get_tracefield_values', f], ['gen_trace_header', i], ['gen_trace_header_all', i],
                       ['get_trace', i], ['gen_trace_header', i]])


def gen_history(rng, m, n_ops, reader_openers=READER_OPENERS, emu_openers=EMU_OPENERS, two_threads=False,
                xarray_ok=False, sibling_ok=False, nudge=False, flavour=None, faults=False):
    """ops: ['open', slot, opener] | ['close', slot] | ['call', slot, call].  Slots 0..3 readers,
    4 = the emulator, 5 = an xarray dataset, 6 = a reader on the *sibling* file (same geometry, other
    content; opener 'sib:<opener>').  With two_threads the slots are split between two caller
    threads (ops carry a 4th element: the thread, 0 or 1)."""
    ops = []
    open_slots = {}
    palette = {'reader': [], 'emulator': [], 'xarray': []}

    def kind_of(slot):
        return 'emulator' if slot == 4 else ('xarray' if slot == 5 else 'reader')

    def do_open(slot):
        k = kind_of(slot)
        opener = 'xarray' if k == 'xarray' else rng.choice(emu_openers if k == 'emulator' else reader_openers)
        if slot == 6:
            opener = 'sib:' + opener
        ops.append(['open', slot, opener])
        open_slots[slot] = opener

    visited = []

    def pick_call(slot):
        k = kind_of(slot)
        pal = palette[k]
        if flavour == 'traces' and k != 'xarray' and rng.random() < 0.8:
            # a walk over traces: many chunks, returns to earlier ones (per-chunk state that outlives an eviction)
            return _trace_walk_call(rng, m, k, visited)
        if flavour == 'headers' and k != 'xarray' and rng.random() < 0.85:
            return _header_state_call(rng, m, k)
        if pal and rng.random() < 0.6:
            return rng.choice(pal)
        if k == 'xarray':
            c = gen_xr_call(rng, m)
        else:
            c = battery.gen_call(rng, m, k)
        if len(pal) < 5:
            pal.append(c)
        else:
            pal[rng.randrange(5)] = c
        return c
    do_open(0)
    if rng.random() < 0.6:
        do_open(4)
    if rng.random() < 0.5:
        do_open(1)
    if xarray_ok and HAVE_XARRAY and not m['is_2d'] and rng.random() < 0.25:
        do_open(5)
    if sibling_ok:
        do_open(6)
    last = None
    while len(ops) < n_ops:
        r = rng.random()
        if r < 0.07 and len(open_slots) < 5:
            free = [s for s in ((0, 1, 2, 3, 4, 6) if sibling_ok else (0, 1, 2, 3, 4)) if s not in open_slots]
            if free:
                do_open(rng.choice(free))
                continue
        if r < 0.12 and len(open_slots) > 1:
            s = rng.choice(sorted(open_slots))
            ops.append(['close', s])
            del open_slots[s]
            continue
        slot = rng.choice(sorted(open_slots))
        if last is not None and rng.random() < 0.25:
            # the same call again, on the same or on another object of the same kind
            k = kind_of(last[0])
            same_kind = [s for s in open_slots if kind_of(s) == k]
            if same_kind:
                ops.append(['call', rng.choice(same_kind), last[1]])
                continue
        c = pick_call(slot)
        if last is not None and last[1][0] == 'read_subvolume' and kind_of(slot) == 'reader' and rng.random() < 0.3:
            c = _inner_box(rng, last[1])          # a box inside the previous one
        elif nudge and last is not None and kind_of(slot) == kind_of(last[0]) and rng.random() < 0.2:
            c = _nudge(rng, last[1])              # the previous call with one integer argument moved a little
        if faults and not two_threads and kind_of(slot) != 'xarray' and rng.random() < (0.2 if flavour == 'headers' else 0.08):
            # an earlier read that met a transient storage fault is an earlier read as well: ['fcall', slot, call,
            # [k, kind, arg]] = the call with a one-shot fault on its k-th range request; its own outcome is not
            # judged here (that is C17), what later reads return is
            ops.append(['fcall', slot, c, [rng.choice([0, 0, 0, 1, 1, 2, 3, 5]),
                                          rng.choice(['exception', 'short', 'empty', 'exception_readall', 'exception_seek', 'stall']),
                                          rng.randrange(8)]])
            if rng.random() < 0.6:
                ops.append(['call', slot, c])          # what a caller does after a transient failure: the same call again
                last = (slot, c)
            continue
        ops.append(['call', slot, c])
        last = (slot, c)
    if two_threads:
        for op in ops:
            op.append(1 if op[1] in (1, 3, 6) else 0)
    return ops


def _nudge(rng, call):
    """The same call with one integer argument (or one bound of a slice argument) changed by +-1 or +-4:
    neighbouring lines, traces, samples (an argument pushed out of range raises in the truth as well)."""
    c = [list(a) if isinstance(a, list) else a for a in call]
    spots = []
    for i, a in enumerate(c[1:], 1):
        if isinstance(a, float):
            spots.append((i, 'f'))
        elif isinstance(a, int) and not isinstance(a, bool):
            spots.append((i, None))
        elif isinstance(a, list):
            spots += [(i, j) for j, v in enumerate(a[:2]) if isinstance(v, int) and not isinstance(v, bool)]
    if not spots:
        return call
    i, j = spots[rng.randrange(len(spots))]
    d = rng.choice([-1, 1, -1, 1, -4, 4])
    if j == 'f':
        c[i] += float(rng.choice([-4, 4, -2, 2, 1]))        # a neighbouring (or non-existent) sample coordinate
    elif j is None:
        c[i] += d
    else:
        c[i][j] += d
    return c


def _inner_box(rng, call):
    out = ['read_subvolume']
    for lo, hi in ((call[1], call[2]), (call[3], call[4]), (call[5], call[6])):
        lo2 = lo + rng.randint(0, max(0, (hi - lo - 1) // 2))
        hi2 = hi - rng.randint(0, max(0, (hi - lo2 - 1) // 2))
        out += [lo2, max(hi2, lo2 + 1)]
    return out


def op_thread(op):
    """Caller thread of an op of a two-thread history (appended as last element), else None."""
    if op[0] == 'fcall':
        return None
    n = 3 if op[0] == 'close' else 4
    return op[n - 1] if len(op) == n else None


def gen_xr_call(rng, m):
    out = ['xr_isel']
    for n, unit in ((m['n_il'], m['blockshape'][0]), (m['n_xl'], m['blockshape'][1]), (m['n_s'], 4)):
        # slices only: integer subscripts are not squeezed by the backend (outside the claimed properties)
        lo, hi = battery._rng_pair(rng, n, unit)
        out.append([lo, hi, None])
    return out


def open_any(fs, opener):
    if opener.startswith('sib:'):
        return readers.open_obj(fs, opener[4:], SPATH)
    if opener.startswith('oth:'):
        return readers.open_obj(fs, opener[4:], OPATH)
    if opener == 'xarray':
        import xarray as xr
        from seismic_zfp.sgz_xarray import SeismicZfpBackendEntrypoint
        return xr.open_dataset(readers.FPATH, engine=SeismicZfpBackendEntrypoint)
    return readers.open_obj(fs, opener)


def close_any(obj, opener):
    if opener.startswith(('sib:', 'oth:')):
        opener = opener[4:]
    if opener == 'xarray':
        try:
            obj.close()
        except core.SimAbort:
            raise
        except Exception:
            pass
        return
    readers.close_obj(obj)


def kind_of_opener(opener):
    if opener.startswith('sib:'):
        return 'sibling'
    if opener.startswith('oth:'):
        return 'other'
    return 'xarray' if opener == 'xarray' else readers.OPENERS[opener]['kind']


def uses_sibling(ops):
    return any(op[0] == 'open' and op[2].startswith('sib:') for op in ops)


def uses_other(ops):
    return any(op[0] == 'open' and op[2].startswith('oth:') for op in ops)


def add_other(rng, ops, m_other):
    """Weaves a reader on another file (slot 7) into a history: opened early, a header / sample call of its
    own every few operations, closed at a seeded point."""
    out = []
    opened = False
    for i, op in enumerate(ops):
        if not opened and i >= 1 and rng.random() < 0.5:
            out.append(['open', 7, 'oth:' + rng.choice(['path', 'path', 'emulator', 'preload'])])
            opened = True
        out.append(op)
        if opened and rng.random() < 0.3:
            kind = 'emulator' if out and any(o[0] == 'open' and o[1] == 7 and 'emulator' in o[2] for o in out) else 'reader'
            out.append(['call', 7, battery.gen_call(rng, m_other, kind)])
    return out


def distinct_calls(ops):
    by_kind = {}
    openers = {}
    for op in ops:
        if op[0] == 'open':
            openers[op[1]] = op[2]
        elif op[0] == 'call':
            k = kind_of_opener(openers[op[1]])
            lst = by_kind.setdefault(k, [])
            if op[2] not in lst:
                lst.append(op[2])
    return by_kind


def truth_for(data, ops, sibling=None, other=None):
    """Truth of every distinct (object kind, call) on a fresh isolated default object, computed
    before the history runs."""
    by_kind = distinct_calls(ops)
    xr_calls = by_kind.pop('xarray', [])
    sib_calls = by_kind.pop('sibling', [])
    oth_calls = by_kind.pop('other', [])
    table = readers.truth_table(data, by_kind) if by_kind else {}
    if oth_calls:
        # the other file's object kind (reader / emulator) is part of its opener
        kinds = {}
        openers = {}
        for op in ops:
            if op[0] == 'open':
                openers[op[1]] = op[2]
            elif op[0] == 'call' and op[1] == 7:
                k = readers.OPENERS[openers[7][4:]]['kind']
                kinds.setdefault(k, [])
                if op[2] not in kinds[k]:
                    kinds[k].append(op[2])
        for (_, key), v in readers.truth_table(other, kinds, path=OPATH).items():
            table[('other', key)] = v
    if sib_calls:
        for (_, key), v in readers.truth_table(sibling, {'reader': sib_calls}, path=SPATH).items():
            table[('sibling', key)] = v
    if xr_calls:
        fs = storage.SimFS()
        fs.add_file(readers.FPATH, data)

        def fn():
            for c in xr_calls:
                readers.clear_caches()
                ds = open_any(fs, 'xarray')
                try:
                    table[('xarray', repr(c))] = battery.outcome(lambda: battery.apply_call(ds, c))
                finally:
                    close_any(ds, 'xarray')
        r = env.run_sim(fn, fs, core.SeqChooser(), step_cap=10 ** 8)
        if r.status != 'ok':
            raise core.HarnessError(f'xarray truth computation ended with {r.status}: {r.exc!r}')
        readers.clear_caches()
    return table


def execute(data, ops, chooser, observer=None, step_cap=1500000, sibling=None, preempt=None, other=None):
    """Runs the history.  Returns (outcomes aligned with ops (None for open/close that succeeded),
    fs, run result).  observer(i, op, opener, obj, requests, outcome) is called after every op with
    the range requests that op issued."""
    fs = storage.SimFS()
    fs.add_file(readers.FPATH, data)
    if sibling is not None:
        fs.add_file(SPATH, sibling)
    if other is not None:
        fs.add_file(OPATH, other)
    outcomes = [None] * len(ops)
    objs = {}
    threads = sorted({t for t in map(op_thread, ops) if t is not None}) or [0]

    def run_ops(tid):
        for i, op in enumerate(ops):
            if op_thread(op) not in (None, tid):
                continue
            n0 = len(fs.reqlog)
            if op[0] == 'open':
                try:
                    objs[op[1]] = (open_any(fs, op[2]), op[2])
                    out = ('ok', 'opened')
                except core.SimAbort:
                    raise
                except core.HarnessError:
                    raise
                except Exception as e:
                    out = ('exc', type(e).__name__)
                obj = objs.get(op[1], (None, op[2]))[0]
                opener = op[2]
            elif op[0] == 'close':
                ent = objs.pop(op[1], None)
                if ent:
                    close_any(*ent)
                out, obj, opener = ('ok', 'closed'), None, ent[1] if ent else None
            else:
                ent = objs.get(op[1])
                if ent is None:
                    continue
                obj, opener = ent
                if op[0] == 'fcall':
                    k, fkind, farg = op[3]
                    if fkind == 'short':
                        farg = 1 + 3 * farg
                    fs.faults = storage.FaultPlan({k: (fkind, farg)})
                    fs.faults.arm()
                    try:
                        out = battery.outcome(lambda: battery.apply_call(obj, op[2]))
                    finally:
                        fs.faults.disarm()
                        fs.nfaults_fired = getattr(fs, 'nfaults_fired', 0) + len(fs.faults.fired)
                else:
                    out = battery.outcome(lambda: battery.apply_call(obj, op[2]))
            outcomes[i] = out
            if observer is not None:
                me = core.current().cur.name
                reqs = [r for r in fs.reqlog[n0:] if len(threads) == 1 or _belongs(r[6], me, tid)]
                observer(i, op, opener, obj, reqs, out)

    def fn():
        readers.clear_caches()
        if len(threads) == 1:
            run_ops(threads[0])
        else:
            t = core.SimThread(target=run_ops, args=(1,), name='caller')
            t._role = 'caller'
            t.start()
            run_ops(0)
            t.join()
        for slot in sorted(objs):
            close_any(*objs[slot])
    r = env.run_sim(fn, fs, chooser, step_cap=step_cap, preempt=tuple(preempt) if preempt else None)
    readers.clear_caches()
    return outcomes, fs, r


def _belongs(thread_name, me, tid):
    # pool workers cannot be attributed to a caller when two callers run; keep the caller's own only
    return thread_name == me
