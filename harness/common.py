"""Process model, evidence, known findings, replay files, ddmin."""
import concurrent.futures as cf
import faulthandler
import hashlib
import json
import multiprocessing
import os
import sys
import time

VERIF = os.path.dirname(os.path.dirname(os.path.abspath(__file__)))
EVIDENCE_DIR = os.environ.get('VERIF_EVIDENCE_DIR') or os.path.join(VERIF, 'evidence')
REPLAY_DIR = os.environ.get('VERIF_REPLAY_DIR') or os.path.join(VERIF, 'replays')
KNOWN_FILE = os.path.join(VERIF, 'known_findings.txt')

NPROC = int(os.environ.get('VERIF_NPROC', '16'))


def env_seed():
    try:
        return int(os.environ.get('VERIF_SEED', '1'))
    except ValueError:
        return 1


def budget_s(default):
    v = os.environ.get('VERIF_BUDGET_S')
    return float(v) if v else float(default)


class HarnessFailure(Exception):
    pass


def harness_exit(msg):
    print(f'HARNESS-ERROR {msg}', flush=True)
    sys.exit(3)


# --------------------------------------------------------------------------------------------
# parallel execution of run batches
# --------------------------------------------------------------------------------------------

_WORKER_FN = None
_WORKER_CTX = None
_WORKER_MARK = None
_CUR_INDEX = None


def mark(detail=None):
    """Records what this worker is about to do, so that the parent can attribute a process death."""
    if _WORKER_MARK:
        with open(os.path.join(_WORKER_MARK, str(os.getpid())), 'w') as f:
            f.write(json.dumps({'index': _CUR_INDEX, 'detail': detail}, default=str))


def _worker_timeout():
    # a worker stuck (or simply too slow) is a harness problem, never "the reading process died"
    if _WORKER_MARK:
        try:
            with open(os.path.join(_WORKER_MARK, f'timeout-{os.getpid()}'), 'w') as f:
                f.write(json.dumps({'index': _CUR_INDEX}))
        except OSError:
            pass
    faulthandler.dump_traceback(all_threads=True)
    os._exit(3)


def _die_with_parent():
    """Linux: deliver SIGKILL to this worker when the process that forked it goes away."""
    try:
        import ctypes
        import signal
        ctypes.CDLL(None).prctl(1, int(signal.SIGKILL))      # PR_SET_PDEATHSIG
    except Exception:
        pass


def _worker_entry(batch, deadline, per_batch_timeout):
    global _CUR_INDEX
    import threading
    _die_with_parent()
    wd = threading.Timer(per_batch_timeout, _worker_timeout)
    wd.daemon = True
    wd.start()
    out = []
    try:
        for idx, item in batch:
            if deadline is not None and time.time() > deadline:
                out.append(('skipped', idx, None))
                continue
            _CUR_INDEX = idx
            mark()
            out.append(('done', idx, _WORKER_FN(_WORKER_CTX, item)))
        if _WORKER_MARK:
            try:
                os.remove(os.path.join(_WORKER_MARK, str(os.getpid())))
            except OSError:
                pass
    finally:
        wd.cancel()
    return out


def run_parallel(fn, ctx, items, nproc=None, deadline=None, chunk=20, per_batch_timeout=600, mark_dir=None):
    """Runs fn(ctx, item) for every item on forked workers (ctx is inherited, not pickled).
    Returns (results [(item, value)], skipped [item], crashed [{'item', 'detail'}]) — crashed = the
    items in flight when a worker process died (only attributed when mark_dir is given).
    Batches are submitted a window at a time (a thorough tier names millions of runs: they are neither
    materialised nor sent to the workers once the deadline has passed)."""
    per_batch_timeout = int(os.environ.get("VERIF_BATCH_TIMEOUT", per_batch_timeout))
    global _WORKER_FN, _WORKER_CTX, _WORKER_MARK
    nproc = nproc or NPROC
    _WORKER_FN, _WORKER_CTX, _WORKER_MARK = fn, ctx, mark_dir
    if not (hasattr(items, '__len__') and hasattr(items, '__getitem__')):
        items = list(items)
    n = len(items)
    results, skipped, crashed = [], [], []

    def absorb(recs):
        for kind, idx, val in recs:
            if kind == 'done':
                results.append((items[idx], val))
            else:
                skipped.append(items[idx])
    if nproc <= 1:
        for i in range(0, n, chunk):
            if deadline is not None and time.time() > deadline:
                skipped.extend(items[j] for j in range(i, n))
                break
            absorb(_worker_entry([(j, items[j]) for j in range(i, min(n, i + chunk))], deadline, per_batch_timeout))
        return results, skipped, crashed
    mp = multiprocessing.get_context('fork')
    state = {'next': 0}
    retry = []              # batches that were in flight when a worker died
    dead = set()
    rounds = 0
    while True:
        rounds += 1
        broken = False
        inflight = {}
        with cf.ProcessPoolExecutor(max_workers=nproc, mp_context=mp) as ex:
            def submit_more():
                while len(inflight) < 4 * nproc:
                    if retry:
                        b = [(j, it) for j, it in retry.pop() if j not in dead]
                    elif state['next'] < n:
                        if deadline is not None and time.time() > deadline:
                            skipped.extend(items[j] for j in range(state['next'], n))
                            state['next'] = n
                            return
                        i = state['next']
                        state['next'] = min(n, i + chunk)
                        b = [(j, items[j]) for j in range(i, state['next'])]
                    else:
                        return
                    if b:
                        inflight[ex.submit(_worker_entry, b, deadline, per_batch_timeout)] = b
            try:
                submit_more()
                while inflight:
                    done, _ = cf.wait(list(inflight), return_when=cf.FIRST_COMPLETED)
                    for f in done:
                        b = inflight.pop(f)
                        try:
                            absorb(f.result())
                        except cf.process.BrokenProcessPool:
                            broken = True
                            retry.append(b)
                    if broken:
                        break
                    submit_more()
            except cf.process.BrokenProcessPool:
                broken = True
            if broken:
                retry.extend(inflight.values())
                inflight.clear()
        if not broken:
            break
        if mark_dir is None:
            raise HarnessFailure('worker process died (no crash attribution requested)')
        newly = set()
        for name in os.listdir(mark_dir):
            if name.startswith('timeout-'):
                raise HarnessFailure(f'a worker exceeded its time limit of {per_batch_timeout}s (item index in '
                                     f'{os.path.join(mark_dir, name)})')
            p = os.path.join(mark_dir, name)
            try:
                rec = json.loads(open(p).read())
                newly.add(rec['index'])
                crashed.append({'item': items[rec['index']], 'detail': rec['detail']})
            except Exception:
                pass
            os.remove(p)
        if not newly or rounds > 50:
            raise HarnessFailure('worker process died and the item in flight could not be identified')
        dead |= newly
    return results, skipped, crashed


# --------------------------------------------------------------------------------------------
# evidence / findings / replay
# --------------------------------------------------------------------------------------------

def write_evidence(pid, tier, seed, level, coverage, assumptions, wall_s, violations, extra=None):
    os.makedirs(EVIDENCE_DIR, exist_ok=True)
    doc = {
        'property_id': pid,
        'tier': tier,
        'seed': int(seed),
        'level': level,
        'coverage': coverage,
        'assumptions': assumptions,
        'wall_s': round(float(wall_s), 2),
        'violations': int(violations),
    }
    if extra:
        doc.update(extra)
    path = os.path.join(EVIDENCE_DIR, f'{pid}.json')
    tmp = path + '.tmp'
    with open(tmp, 'w') as f:
        json.dump(doc, f, indent=1, sort_keys=False, default=str)
    os.replace(tmp, path)
    return path


def load_known(pid):
    """'known:' lines for this property -> {signature: description}.  'fixed:' lines suppress nothing."""
    known = {}
    if not os.path.exists(KNOWN_FILE):
        return known
    for line in open(KNOWN_FILE):
        line = line.strip()
        if not line.startswith('known:'):
            continue
        parts = line.split(None, 3)
        if len(parts) < 3 or parts[1] != f'property={pid}' or not parts[2].startswith('signature='):
            continue
        known[parts[2][len('signature='):]] = parts[3] if len(parts) > 3 else ''
    return known


def write_replay(pid, seed, run, doc):
    os.makedirs(REPLAY_DIR, exist_ok=True)
    path = os.path.join(REPLAY_DIR, f'{pid}-{seed}-{run}.json')
    with open(path, 'w') as f:
        json.dump(doc, f, indent=1, default=str)
    return path


def conclude(pid, violations, known):
    """violations: list of dicts with 'signature', 'replay', 'what'.  Prints the interface lines and
    returns the exit code."""
    code = 0
    seen_known = set()
    for v in violations:
        sig = v['signature']
        if sig in known:
            if sig not in seen_known:
                seen_known.add(sig)
                print(f'KNOWN-FINDING: property={pid} {sig} {known[sig]}', flush=True)
            continue
        print(f"VIOLATION property={pid} replay={v['replay']}", flush=True)
        print(f"  signature={sig} :: {str(v.get('what', ''))[:400]}", flush=True)
        code = 1
    return code


def sha(b):
    return hashlib.sha1(b).hexdigest()


# --------------------------------------------------------------------------------------------
# delta debugging
# --------------------------------------------------------------------------------------------

def ddmin_list(items, test, max_tests=400):
    """Classic ddmin: smallest sublist (order kept) for which test(sublist) is still True."""
    n = 2
    tests = 0
    items = list(items)
    while len(items) >= 2 and tests < max_tests:
        chunk = max(1, len(items) // n)
        subsets = [items[i:i + chunk] for i in range(0, len(items), chunk)]
        reduced = False
        for i in range(len(subsets)):
            complement = [x for j, s in enumerate(subsets) if j != i for x in s]
            tests += 1
            if test(complement):
                items = complement
                n = max(n - 1, 2)
                reduced = True
                break
            if tests >= max_tests:
                break
        if not reduced:
            if n >= len(items):
                break
            n = min(len(items), n * 2)
    return items


def minimise_positions(values, default, test, max_tests=300):
    """values: list; tries to replace entries by `default` (in shrinking chunks) while test(list) holds."""
    vals = list(values)
    idx = [i for i, v in enumerate(vals) if v != default]
    tests = 0
    chunk = max(1, len(idx) // 2)
    while idx and tests < max_tests:
        progress = False
        i = 0
        while i < len(idx) and tests < max_tests:
            part = idx[i:i + chunk]
            trial = list(vals)
            for p in part:
                trial[p] = default
            tests += 1
            if test(trial):
                vals = trial
                idx = idx[:i] + idx[i + chunk:]
                progress = True
            else:
                i += chunk
        if chunk == 1 and not progress:
            break
        chunk = max(1, chunk // 2)
    return vals
