"""Process model, evidence, known findings, replay files, ddmin."""
import concurrent.futures as cf
import faulthandler
import hashlib
import json
import multiprocessing
import os
import sys
import time

VERIF = os.path.dirname(os.path.dirname(os.path.abspath(__file__)))
EVIDENCE_DIR = os.environ.get('VERIF_EVIDENCE_DIR') or os.path.join(VERIF, 'evidence')
REPLAY_DIR = os.environ.get('VERIF_REPLAY_DIR') or os.path.join(VERIF, 'replays')
KNOWN_FILE = os.path.join(VERIF, 'known_findings.jsonl')

NPROC = int(os.environ.get('VERIF_NPROC', '16'))


def env_seed():
    try:
        return int(os.environ.get('VERIF_SEED', '1'))
    except ValueError:
        return 1


def budget_s(default):
    v = os.environ.get('VERIF_BUDGET_S')
    return float(v) if v else float(default)


class HarnessFailure(Exception):
    pass


def harness_exit(msg):
    print(f'HARNESS-ERROR {msg}', flush=True)
    sys.exit(3)


# --------------------------------------------------------------------------------------------
# parallel execution of run batches
# --------------------------------------------------------------------------------------------

_WORKER_FN = None
_WORKER_CTX = None
_WORKER_MARK = None


def _worker_entry(batch, deadline, per_batch_timeout):
    faulthandler.dump_traceback_later(per_batch_timeout, exit=True)
    out = []
    try:
        for item in batch:
            if deadline is not None and time.time() > deadline:
                out.append(('skipped', item))
                continue
            if _WORKER_MARK:
                with open(os.path.join(_WORKER_MARK, str(os.getpid())), 'w') as f:
                    f.write(json.dumps(item))
            out.append(('done', item, _WORKER_FN(_WORKER_CTX, item)))
        if _WORKER_MARK:
            try:
                os.remove(os.path.join(_WORKER_MARK, str(os.getpid())))
            except OSError:
                pass
    finally:
        faulthandler.cancel_dump_traceback_later()
    return out


def run_parallel(fn, ctx, items, nproc=None, deadline=None, chunk=20, per_batch_timeout=600, mark_dir=None,
                 on_result=None):
    """Runs fn(ctx, item) for every item on forked workers (ctx is inherited, not pickled).
    Returns (results, skipped, crashed) — crashed = items in flight when a worker process died."""
    global _WORKER_FN, _WORKER_CTX, _WORKER_MARK
    nproc = nproc or NPROC
    _WORKER_FN, _WORKER_CTX, _WORKER_MARK = fn, ctx, mark_dir
    items = list(items)
    batches = [items[i:i + chunk] for i in range(0, len(items), chunk)]
    results, skipped, crashed = [], [], []
    if nproc <= 1:
        for b in batches:
            for rec in _worker_entry(b, deadline, per_batch_timeout):
                if rec[0] == 'done':
                    results.append((rec[1], rec[2]))
                    if on_result:
                        on_result(rec[1], rec[2])
                else:
                    skipped.append(rec[1])
        return results, skipped, crashed
    mp = multiprocessing.get_context('fork')
    pending = list(batches)
    while pending:
        broken = False
        with cf.ProcessPoolExecutor(max_workers=nproc, mp_context=mp) as ex:
            futs = {ex.submit(_worker_entry, b, deadline, per_batch_timeout): b for b in pending}
            done_batches = []
            try:
                for f in cf.as_completed(futs):
                    b = futs[f]
                    try:
                        recs = f.result()
                    except cf.process.BrokenProcessPool:
                        broken = True
                        continue
                    done_batches.append(b)
                    for rec in recs:
                        if rec[0] == 'done':
                            results.append((rec[1], rec[2]))
                            if on_result:
                                on_result(rec[1], rec[2])
                        else:
                            skipped.append(rec[1])
            except cf.process.BrokenProcessPool:
                broken = True
        pending = [b for b in pending if b not in done_batches]
        if broken:
            if mark_dir is None:
                raise HarnessFailure('worker process died (no crash attribution requested)')
            # attribute: the items recorded as in flight by dead workers
            inflight = []
            for name in os.listdir(mark_dir):
                p = os.path.join(mark_dir, name)
                try:
                    inflight.append(json.loads(open(p).read()))
                except Exception:
                    pass
                os.remove(p)
            if not inflight:
                raise HarnessFailure('worker process died and no in-flight item was recorded')
            crashed.extend(inflight)
            # re-queue every unfinished item except the crashing ones, one item per batch is too slow;
            # keep batches but drop the crashing items
            new_pending = []
            for b in pending:
                nb = [it for it in b if it not in inflight]
                if nb:
                    new_pending.append(nb)
            pending = new_pending
        else:
            break
    return results, skipped, crashed


# --------------------------------------------------------------------------------------------
# evidence / findings / replay
# --------------------------------------------------------------------------------------------

def write_evidence(pid, tier, seed, level, coverage, assumptions, wall_s, violations, extra=None):
    os.makedirs(EVIDENCE_DIR, exist_ok=True)
    doc = {
        'property_id': pid,
        'tier': tier,
        'seed': int(seed),
        'level': level,
        'coverage': coverage,
        'assumptions': assumptions,
        'wall_s': round(float(wall_s), 2),
        'violations': int(violations),
    }
    if extra:
        doc.update(extra)
    path = os.path.join(EVIDENCE_DIR, f'{pid}.json')
    tmp = path + '.tmp'
    with open(tmp, 'w') as f:
        json.dump(doc, f, indent=1, sort_keys=False, default=str)
    os.replace(tmp, path)
    return path


def load_known(pid):
    """known: lines for this property -> {signature: description}.  fixed: lines suppress nothing."""
    known = {}
    if not os.path.exists(KNOWN_FILE):
        return known
    for line in open(KNOWN_FILE):
        line = line.strip()
        if not line or line.startswith('#'):
            continue
        try:
            rec = json.loads(line)
        except ValueError:
            continue
        if rec.get('status') == 'known' and rec.get('property') == pid:
            known[rec['signature']] = rec.get('what', '')
    return known


def write_replay(pid, seed, run, doc):
    os.makedirs(REPLAY_DIR, exist_ok=True)
    path = os.path.join(REPLAY_DIR, f'{pid}-{seed}-{run}.json')
    with open(path, 'w') as f:
        json.dump(doc, f, indent=1, default=str)
    return path


def conclude(pid, violations, known):
    """violations: list of dicts with 'signature', 'replay', 'what'.  Prints the interface lines and
    returns the exit code."""
    code = 0
    seen_known = set()
    for v in violations:
        sig = v['signature']
        if sig in known:
            if sig not in seen_known:
                seen_known.add(sig)
                print(f'KNOWN-FINDING: property={pid} {sig} {known[sig]}', flush=True)
            continue
        print(f"VIOLATION property={pid} replay={v['replay']}", flush=True)
        print(f"  signature={sig} :: {v.get('what', '')}", flush=True)
        code = 1
    return code


def sha(b):
    return hashlib.sha1(b).hexdigest()


# --------------------------------------------------------------------------------------------
# delta debugging
# --------------------------------------------------------------------------------------------

def ddmin_list(items, test, max_tests=400):
    """Classic ddmin: smallest sublist (order kept) for which test(sublist) is still True."""
    n = 2
    tests = 0
    items = list(items)
    while len(items) >= 2 and tests < max_tests:
        chunk = max(1, len(items) // n)
        subsets = [items[i:i + chunk] for i in range(0, len(items), chunk)]
        reduced = False
        for i in range(len(subsets)):
            complement = [x for j, s in enumerate(subsets) if j != i for x in s]
            tests += 1
            if test(complement):
                items = complement
                n = max(n - 1, 2)
                reduced = True
                break
            if tests >= max_tests:
                break
        if not reduced:
            if n >= len(items):
                break
            n = min(len(items), n * 2)
    return items


def minimise_positions(values, default, test, max_tests=300):
    """values: list; tries to replace entries by `default` (in shrinking chunks) while test(list) holds."""
    vals = list(values)
    idx = [i for i, v in enumerate(vals) if v != default]
    tests = 0
    chunk = max(1, len(idx) // 2)
    while idx and tests < max_tests:
        progress = False
        i = 0
        while i < len(idx) and tests < max_tests:
            part = idx[i:i + chunk]
            trial = list(vals)
            for p in part:
                trial[p] = default
            tests += 1
            if test(trial):
                vals = trial
                idx = idx[:i] + idx[i + chunk:]
                progress = True
            else:
                i += chunk
        if chunk == 1 and not progress:
            break
        chunk = max(1, chunk // 2)
    return vals
