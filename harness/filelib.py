"""File library for the reader-side checks: SGZ files produced by the real converters under the
strictly sequential reference schedule (so a pipeline race in the tree under test cannot leak in)
plus the .sgz fixtures of the repository (older format versions, legacy footers)."""
import glob
import os

import numpy as np

from sim import core, storage, env
from . import workloads

OUT = storage.PREFIX + 'lib_out.sgz'


def fixed_specs():
    S = []

    def add(**kw):
        kw['id'] = len(S)
        kw.setdefault('data_seed', 1000 + len(S))
        S.append(kw)
    add(route='numpy', shape=[9, 7, 30], bits=4, blockshape=[4, 4, -1])
    add(route='numpy', shape=[6, 6, 130], bits=16, blockshape=[4, 4, -1])          # two blocks per chunk
    add(route='numpy', shape=[5, 10, 70], bits=0.5, blockshape=[4, 4, -1])
    add(route='numpy', shape=[7, 9, 10], bits=2, blockshape=[64, 64, 4])
    add(route='numpy', shape=[66, 5, 6], bits=2, blockshape=[64, 64, 4])
    add(route='numpy', shape=[10, 9, 70], bits=8, blockshape=[8, 8, -1])
    add(route='numpy', shape=[17, 5, 40], bits=4, blockshape=[16, 16, -1])
    add(route='segy', shape=[8, 6, 24], bits=4, blockshape=[4, 4, -1], fmt=1, il0=1, xl0=20, il_step=1, xl_step=1,
        detection='heuristic')
    add(route='segy', shape=[5, 9, 40], bits=2, blockshape=[4, 4, -1], fmt=5, il0=100, xl0=300, il_step=2, xl_step=3,
        detection='thorough')
    add(route='segy_iops', shape=[6, 5, 20], bits=8, blockshape=[4, 4, -1], fmt=1, il0=1, xl0=1, il_step=1, xl_step=1,
        detection='exhaustive')
    add(route='segy', shape=[6, 5, 20], bits=4, blockshape=[4, 4, -1], fmt=1, il0=1, xl0=1, il_step=1, xl_step=1,
        detection='strip')
    add(route='segy_irreg', shape=[7, 6, 24], bits=4, blockshape=[4, 4, -1], fmt=1, il0=1, xl0=20, il_step=1,
        xl_step=1, detection='heuristic', drop=[[0, 3], [2, 2], [3, 5], [6, 0]])
    add(route='segy_irreg', shape=[5, 5, 16], bits=8, blockshape=[8, 8, -1], fmt=5, il0=10, xl0=5, il_step=2,
        xl_step=1, detection='exhaustive', drop=[[1, 1], [4, 0]])
    add(route='segy_2d', shape=[37, 40], bits=4, blockshape=[1, 16, -1], fmt=1, detection='heuristic')
    add(route='segy_2d', shape=[9, 30], bits=4, blockshape=[1, 4, -1], fmt=5, detection='heuristic')
    add(route='segy_2d', shape=[70, 70], bits=8, blockshape=[1, 64, -1], fmt=1, detection='thorough')
    add(route='segy_2d', shape=[300, 33], bits=4, blockshape=[1, 256, -1], fmt=1, detection='strip')
    add(route='numpy', shape=[41, 9, 12], bits=4, blockshape=[4, 4, -1])           # >= 10 parallel range reads
    add(route='numpy', shape=[130, 70, 6], bits=2, blockshape=[64, 64, 4])
    # one inline group = 43 disk blocks (a contiguous range longer than two blocks per pool worker),
    # 43 parallel range reads per z-slice
    add(route='numpy', shape=[5, 170, 20], bits=8, blockshape=[4, 4, -1])
    add(route='numpy', shape=[7, 6, 40], bits=2, blockshape=[4, 4, -1], hdrs=True)   # five footer arrays
    # line numbers that are negative and cross zero (-3 .. 2 and -2 .. 4)
    add(route='segy', shape=[6, 7, 20], bits=4, blockshape=[4, 4, -1], fmt=1, il0=-3, xl0=-2, il_step=1, xl_step=1,
        detection='heuristic')
    # the SEG-Y fixtures of the repository (duplicated header fields, decimated / reversed / negative line
    # numbers, negative sample times, microsecond intervals, IEEE samples, 2D lines keyed by either line number)
    for f, shape, bits, bs, det, extra in (
            ('small-duplicate-traceheaders.sgy', [5, 5, 50], 4, [4, 4, -1], 'heuristic', {}),
            ('small-duplicate-traceheaders.sgy', [5, 5, 50], 8, [4, 4, -1], 'thorough', {}),
            ('small.sgy', [5, 5, 50], 2, [4, 4, -1], 'heuristic', {'iops': True}),
            ('small-dec.sgy', [3, 3, 50], 4, [4, 4, -1], 'thorough', {}),
            ('small_reverse_il.sgy', [5, 5, 50], 4, [8, 8, -1], 'heuristic', {}),
            ('small_negative_il_xl.sgy', [5, 5, 50], 1, [4, 4, -1], 'exhaustive', {}),
            ('small-negative-samples.sgy', [5, 5, 40], 4, [4, 4, -1], 'heuristic', {}),
            ('small_us.sgy', [5, 5, 50], 4, [4, 4, -1], 'heuristic', {}),
            ('small-ieee.sgy', [5, 5, 50], 16, [4, 4, -1], 'heuristic', {}),
            ('small-irreg-dec.sgy', [3, 3, 50], 4, [4, 4, -1], 'heuristic', {}),
            ('small-2d-INLINE_3D.sgy', [25, 50], 4, [1, 4, -1], 'heuristic', {}),
            ('small-2d-CROSSLINE_3D.sgy', [25, 50], 8, [1, 16, -1], 'thorough', {})):
        add(route='segy_file', file=f, shape=shape, bits=bits, blockshape=bs, detection=det, **extra)
    # 3 x 3 chunks of two disk blocks each: more chunks than the default chunk cache holds (8)
    add(route='numpy', shape=[9, 10, 140], bits=16, blockshape=[4, 4, -1])
    return S


def convert(spec, bufsize=4096):
    """Runs the real converter for spec under the sequential reference schedule; returns
    (bytes or None, SimFS)."""
    fs = storage.SimFS(bufsize=bufsize)
    fn = workloads.converter_fn(spec, OUT)
    r = env.run_sim(fn, fs, core.SeqChooser(), step_cap=200000)
    if r.status != 'ok':
        return None, fs, r
    return fs.image(OUT), fs, r


def read_meta(data):
    """Header-level facts about a file, read with the library's own reader (fault-free)."""
    from seismic_zfp.read import SgzReader
    fs = storage.SimFS()
    p = storage.PREFIX + 'meta.sgz'
    fs.add_file(p, data)
    with env.SimEnv(fs):
        rd = SgzReader(p)
        m = {
            'is_2d': bool(rd.is_2d), 'n_s': int(rd.n_samples), 'tracecount': int(rd.tracecount),
            'blockshape': [int(b) for b in rd.blockshape], 'rate': float(rd.rate),
            'structured': bool(rd.structured), 'stored': [int(k) for k in rd.stored_header_keys],
            'zslices': [float(z) for z in rd.zslices], 'shape_pad': [int(x) for x in rd.shape_pad],
            'n_header_blocks': int(rd.n_header_blocks), 'data_blocks': int(rd.compressed_data_diskblocks),
            'hdr_len': int(rd.header_entry_length_bytes), 'hdr_pad_len': int(rd.padded_header_entry_length_bytes),
            'n_arrays': int(rd.n_header_arrays), 'size': len(data),
            'unit_bytes': int(rd.unit_bytes), 'chunk_bytes': int(rd.chunk_bytes),
            'offsets': {int(k): int(rd.segy_traceheader_template[k]) for k in rd.stored_header_keys},
        }
        if not rd.is_2d:
            m.update(n_il=int(rd.n_ilines), n_xl=int(rd.n_xlines), ilines=[int(v) for v in rd.ilines],
                     xlines=[int(v) for v in rd.xlines])
        else:
            m.update(n_il=0, n_xl=0, ilines=[], xlines=[])
        try:
            rd.close()
        except Exception:
            pass
    env.clear_loader_caches()
    bs = m['blockshape']
    if m['is_2d']:
        m['kind'] = '2d'
        m['layout'] = '2d-4' if bs[1] == 4 else '2d-general'
    else:
        m['kind'] = '3d' if m['structured'] else 'irreg'
        m['layout'] = '4x4' if (bs[0] == 4 and bs[1] == 4) else ('zslice' if bs[2] == 4 else 'general')
    return m


def usable(m):
    """Files every call generator can address (at least 2 lines per axis, 2 samples)."""
    if m['is_2d']:
        return m['tracecount'] >= 2 and m['n_s'] >= 2
    return m['n_il'] >= 2 and m['n_xl'] >= 2 and m['n_s'] >= 2 and m['tracecount'] >= 2


def make_sibling(data, m):
    """A different file with the same geometry: the 4 KiB data blocks rotated by one (every block is a
    whole number of fixed-rate cells, so the result is a valid file that decodes to other samples) and
    7 added to every non-zero stored header value (zeros stay: they mark the holes of irregular files).
    Returns None when the file has fewer than two data blocks."""
    import numpy as np
    nb = m['data_blocks']
    if nb < 2:
        return None
    d0 = 4096 * m['n_header_blocks']
    d1 = d0 + 4096 * nb
    out = bytearray(data)
    out[d0:d1] = data[d0 + 4096:d1] + data[d0:d0 + 4096]
    for off in m['offsets'].values():
        a = np.frombuffer(bytes(out[off:off + m['hdr_len']]), dtype='<i4').copy()
        nz = a != 0
        a[nz] = np.where(a[nz] == -7, 1, a[nz] + 7)
        out[off:off + m['hdr_len']] = a.tobytes()
    return bytes(out)


class Library(list):
    """List of entries plus the names of the inputs that could not be turned into an entry."""
    dropped = ()


BIG_SPEC = dict(route='numpy', shape=[8, 1100, 512], bits=16, blockshape=[4, 4, -1], data_seed=31)


def build(seed, scratch, n_random=0, fixtures=True, max_bytes=600000, big=False):
    """Returns a Library of entries {name, data, meta, spec or None}.  A fixed spec or a fixture that
    cannot be converted / opened fault-free makes the library unusable: the reader-side checks would
    silently lose a whole class of files, so that is a harness error, never a pass."""
    lib = Library()
    dropped = []
    specs = fixed_specs()
    n_fixed = len(specs)
    rng = core.stream(seed, 'lib', 'workload')
    for k in range(n_random):
        s = workloads.gen_spec(rng, len(specs))
        specs.append(s)
    for spec in specs:
        try:
            workloads.materialise(spec, scratch)
            data, _, _ = convert(spec)
        except core.HarnessError:
            raise
        except Exception:
            data = None
        if data is None or len(data) > max_bytes:
            if spec['id'] < n_fixed:
                dropped.append(f"gen{spec['id']}: conversion failed")
            continue
        try:
            m = read_meta(data)
        except core.HarnessError:
            raise
        except Exception as e:
            if spec['id'] < n_fixed:
                dropped.append(f"gen{spec['id']}: complete file does not open ({type(e).__name__})")
            continue
        if not usable(m):
            continue
        lib.append({'name': f"gen{spec['id']}:{spec.get('file') or spec['route']}:{'x'.join(map(str, spec['shape']))}:"
                            f"b{spec['bits']}:{'x'.join(map(str, m['blockshape']))}"
                            + (f":{spec.get('detection')}" if spec.get('detection') else ''),
                    'data': data, 'meta': m, 'spec': {k: v for k, v in spec.items() if k != 'src'}})
    if fixtures:
        for p in sorted(glob.glob(os.path.join(env.REPO, 'test_data', '*.sgz')) +
                        glob.glob(os.path.join(env.REPO, 'test_data', 'padding', '*.sgz'))):
            with open(p, 'rb') as f:
                data = f.read()
            try:
                m = read_meta(data)
            except core.HarnessError:
                raise
            except Exception as e:
                dropped.append(f'fixture {os.path.basename(p)}: does not open ({type(e).__name__})')
                continue
            if usable(m):
                lib.append({'name': 'fixture:' + os.path.relpath(p, os.path.join(env.REPO, 'test_data')), 'data': data,
                            'meta': m, 'spec': None})
    if big:
        # one large file: an inline group is a single range read of 4.3 MiB, the data section one of 8.6 MiB (code
        # that treats large requests differently - split, chunked or streamed transfers - is not met otherwise);
        # the call generators restrict themselves to calls whose cost does not grow with the number of columns
        spec = dict(BIG_SPEC, id=len(specs))
        data, _, _ = convert(spec)
        if data is None:
            dropped.append('big file: conversion failed')
        else:
            m = read_meta(data)
            m['big'] = True
            lib.append({'name': f"gen{spec['id']}:big:8x1100x512:b16", 'data': data, 'meta': m, 'spec': spec})
    lib.dropped = dropped
    if dropped:
        raise core.HarnessError('file library incomplete, the reader-side check cannot vouch for anything: '
                                + '; '.join(dropped[:6]))
    return lib
