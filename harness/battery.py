"""Read calls as data: generation (seeded, in-range and slightly out-of-range), application to a
reader / emulator object, and normalisation of results for bit-exact comparison."""
import hashlib

import numpy as np

from sim import core as _core

# trace-header fields that generated and fixture files commonly store, plus never-stored ones
FIELDS = [189, 193, 181, 185, 1, 5, 21, 73, 77, 115, 117, 37, 9, 71]


# every trace-header word of the SEG-Y standard (byte positions), in header order
ALL_FIELDS = [1, 5, 9, 13, 17, 21, 25, 29, 31, 33, 35, 37, 41, 45, 49, 53, 57, 61, 65, 69, 71, 73, 77, 81, 85, 89, 91, 93,
              95, 97, 99, 101, 103, 105, 107, 109, 111, 113, 115, 117, 119, 121, 123, 125, 127, 129, 131, 133, 135, 137,
              139, 141, 143, 145, 147, 149, 151, 153, 155, 157, 159, 161, 163, 165, 167, 169, 171, 173, 175, 177, 179,
              181, 185, 189, 193, 197, 201, 203, 205, 209, 211, 213, 215, 217, 219, 223, 225, 229, 231]


class Sweep(list):
    """Result of a composite call: one outcome per element (each ('ok', norm) or ('exc', type))."""


def acceptable(got, want):
    """'raises, or equals the true result' — applied element by element to a sweep."""
    if got[0] == 'exc' or got == want:
        return True
    if got[0] == 'ok' and want[0] == 'ok' and got[1][0] == 'sweep' and want[1][0] == 'sweep' \
            and len(got[1][1]) == len(want[1][1]):
        return all(g[0] == 'exc' or g == w for g, w in zip(got[1][1], want[1][1]))
    return False


def norm(v):
    """Canonical, hashable, bit-exact summary of a returned value."""
    if isinstance(v, Sweep):
        return ('sweep', tuple(v))
    if isinstance(v, np.ndarray):
        a = np.ascontiguousarray(v)
        return ('nd', a.dtype.str, tuple(a.shape), hashlib.sha1(a.tobytes()).hexdigest())
    if isinstance(v, (np.generic,)):
        return ('sc', np.asarray(v).dtype.str, hashlib.sha1(np.asarray(v).tobytes()).hexdigest())
    if isinstance(v, dict) or hasattr(v, 'items') and hasattr(v, 'keys'):
        try:
            return ('map', tuple(sorted((int(k), int(x)) for k, x in v.items())))
        except Exception:
            return ('map?', repr(sorted((str(k), str(x)) for k, x in v.items())))
    if isinstance(v, (list, tuple)):
        return ('seq', tuple(norm(x) for x in v))
    if isinstance(v, (bytes, bytearray)):
        return ('by', hashlib.sha1(bytes(v)).hexdigest(), len(v))
    if isinstance(v, (int, float, str, bool)) or v is None:
        return ('py', repr(v))
    if isinstance(v, range):
        return ('py', repr(v))
    return ('obj', type(v).__name__)


def outcome(fn):
    """('ok', norm) or ('exc', type name).  Simulator aborts and harness errors pass through."""
    try:
        v = fn()
    except _core.HarnessError:
        raise
    except Exception as e:
        return ('exc', type(e).__name__)
    return ('ok', norm(v))


# --------------------------------------------------------------------------------------------
# application
# --------------------------------------------------------------------------------------------

def _sl(t):
    return slice(*t) if isinstance(t, (list, tuple)) else t


def apply_call(obj, call):
    """call = [name, args...] (JSON-friendly).  obj is an SgzReader or a SegyioEmulator."""
    name, args = call[0], call[1:]
    if name == 'attr':
        v = getattr(obj, args[0])
        return np.asarray(v) if isinstance(v, (np.ndarray, list, range)) else v
    if name == 'em_iline':
        return obj.iline[_sl(args[0])]
    if name == 'em_xline':
        return obj.xline[_sl(args[0])]
    if name == 'em_depth':
        return obj.depth_slice[_sl(args[0])]
    if name == 'em_trace':
        return obj.trace[_sl(args[0])]
    if name == 'em_header':
        return obj.header[_sl(args[0])]
    if name == 'em_attributes':
        return obj.attributes(args[0])
    if name == 'tracefield_sweep':
        return Sweep(outcome(lambda f=f: obj.get_tracefield_values(f)) for f in ALL_FIELDS)
    if name == 'em_attributes_sweep':
        return Sweep(outcome(lambda f=f: obj.attributes(f)) for f in ALL_FIELDS)
    if name == 'header_sweep':
        return Sweep(outcome(lambda i=i: obj.gen_trace_header(i)) for i in args[0])
    if name == 'em_subvolume':
        return obj.subvolume[_sl(args[0]), _sl(args[1]), _sl(args[2])]
    if name == 'em_bin':
        return dict(obj.bin)
    if name == 'em_text':
        return bytes(obj.text[0])
    if name == 'bin_header':
        return dict(obj.get_file_binary_header())
    if name == 'text_header':
        return bytes(obj.get_file_text_header()[0])
    if name == 'gen_trace_header_all':
        return obj.gen_trace_header(args[0], load_all_headers=True)
    if name == 'xr_isel':
        da = obj['data'].isel(il=_sl(args[0]), xl=_sl(args[1]), z=_sl(args[2]))
        return np.asarray(da.values)
    return getattr(obj, name)(*args)


# which loader method a call goes through (for signatures / coverage keys)
def call_kind(call):
    return call[0]


# --------------------------------------------------------------------------------------------
# generation
# --------------------------------------------------------------------------------------------

def _idx(rng, n, unit=4):
    """An index in [0, n): biased to block boundaries, ends and repeats."""
    if n <= 1:
        return 0
    c = rng.random()
    if c < 0.2:
        return rng.choice([0, n - 1])
    if c < 0.5:
        b = rng.randrange(0, (n + unit - 1) // unit) * unit
        return min(n - 1, max(0, b + rng.choice([-1, 0, 1])))
    return rng.randrange(n)


def _maybe_reversed(rng, sl):
    """[lo, hi, step] -> now and then the slice that walks the same items backwards ([hi-1 : lo-1 : -step],
    with None for 'down to and including the first item')."""
    if rng.random() >= 0.25:
        return sl
    lo, hi, step = sl
    return [hi - 1, (lo - 1) if lo > 0 else None, -(step or 1)]


def _neg(rng, i, n):
    """Now and then the negative ordinal that denotes the same item."""
    return i - n if rng.random() < 0.15 else i


def _rng_pair(rng, n, unit=4):
    a = _idx(rng, n, unit)
    b = _idx(rng, n, unit)
    lo, hi = min(a, b), max(a, b) + 1
    return lo, hi


def gen_call_3d(rng, m, kind='reader', in_range=True):
    """One seeded call for a 3D file with meta m."""
    n_il, n_xl, n_s = m['n_il'], m['n_xl'], m['n_s']
    bs = m['blockshape']
    ntr = m['tracecount']
    c = rng.random()
    if kind == 'emulator' and c < 0.55:
        k = rng.randrange(9)
        if k == 0:
            return ['em_iline', int(m['ilines'][_idx(rng, n_il, bs[0])])]
        if k == 1:
            return ['em_xline', int(m['xlines'][_idx(rng, n_xl, bs[1])])]
        if k == 2:
            if rng.random() < 0.2:
                lo, hi = _rng_pair(rng, n_s, 4)
                return ['em_depth', _maybe_reversed(rng, [lo, min(hi, lo + 9), rng.choice([None, 2, 3])])]
            return ['em_depth', _neg(rng, _idx(rng, n_s, 4), n_s)]
        if k == 3:
            return ['em_trace', _neg(rng, _idx(rng, ntr, 4), ntr)]
        if k == 4:
            if rng.random() < 0.25:
                lo, hi = _rng_pair(rng, ntr, 4)
                return ['em_header', _maybe_reversed(rng, [lo, min(hi, lo + 6), rng.choice([None, 1, 2])])]
            return ['em_header', _neg(rng, _idx(rng, ntr, 4), ntr)]
        if k == 5:
            return ['em_attributes', rng.choice(m['stored'] + [37]) if m['stored'] else 37]
        if k == 6:
            lo, hi = _rng_pair(rng, n_il, bs[0])
            step = rng.choice([1, 1, 2])
            ils = m['ilines']
            dil = int(ils[1] - ils[0]) if n_il > 1 else 1
            stop = int(ils[hi]) if hi < n_il else int(ils[-1]) + dil
            return ['em_iline', [int(ils[lo]), stop, dil * step]]
        if k == 7:
            lo, hi = _rng_pair(rng, ntr, 4)
            hi = min(hi, lo + 6)
            return ['em_trace', _maybe_reversed(rng, [lo, hi, rng.choice([None, 1, 2])])]
        if k == 8:
            return _gen_em_subvolume(rng, m)
    k = rng.randrange(16)
    if k == 0:
        return ['read_inline', _idx(rng, n_il, bs[0])]
    if k == 1:
        return ['read_crossline', _idx(rng, n_xl, bs[1])]
    if k == 2:
        return ['read_zslice', _idx(rng, n_s, 4)]
    if k == 3:
        a, b = _rng_pair(rng, n_il, bs[0])
        c_, d = _rng_pair(rng, n_xl, bs[1])
        e, f = _rng_pair(rng, n_s, bs[2])
        return ['read_subvolume', a, b, c_, d, e, f]
    if k == 4:
        return ['get_trace', _idx(rng, ntr, 4)]
    if k == 5:
        e, f = _rng_pair(rng, n_s, min(bs[2], 16))
        return ['get_trace', _idx(rng, ntr, 4), e, f]
    if k == 6:
        return ['gen_trace_header', _idx(rng, ntr, 4)]
    if k == 7:
        return ['gen_trace_header_all', _idx(rng, ntr, 4)]
    if k == 8:
        return ['get_tracefield_values', rng.choice(m['stored'] + [37]) if m['stored'] else 37]
    if k == 9:
        cd = rng.randrange(-(n_xl - 1), n_il)
        return ['read_correlated_diagonal', cd] + _diag_crop(rng, len(diagonal_traces('c', cd, n_il, n_xl)), n_s)
    if k == 10:
        ad = rng.randrange(0, n_il + n_xl - 1)
        return ['read_anticorrelated_diagonal', ad] + _diag_crop(rng, len(diagonal_traces('a', ad, n_il, n_xl)), n_s)
    if k == 11:
        return ['read_inline_number', int(m['ilines'][_idx(rng, n_il, bs[0])])]
    if k == 12:
        return ['read_crossline_number', int(m['xlines'][_idx(rng, n_xl, bs[1])])]
    if k == 13:
        return ['read_zslice_coord', float(m['zslices'][_idx(rng, n_s, 4)])]
    if k == 14:
        return rng.choice([['read_volume'], ['bin_header'], ['text_header'], ['attr', 'ilines'], ['attr', 'xlines'],
                           ['attr', 'zslices'], ['attr', 'tracecount'],
                           ['header_sweep', sorted({_idx(rng, ntr, 4) for _ in range(3)})]])
    e, f = _rng_pair(rng, n_s, 4)
    f = min(f, n_s)
    zs = m['zslices']
    dz = zs[1] - zs[0] if n_s > 1 else 1.0
    stop = float(zs[f]) if f < n_s else float(zs[-1] + dz)
    return ['get_trace_by_coord', _idx(rng, ntr, 4), float(zs[e]), stop]


def diagonal_traces(family, d_id, n_il, n_xl):
    """(il, xl) ordinals of the traces of a diagonal, in the order the reader returns them."""
    if family == 'c':
        if d_id >= 0:
            return [(d + d_id, d) for d in range(min(n_il - d_id, n_xl))]
        return [(d, d - d_id) for d in range(min(n_il, n_xl + d_id))]
    if d_id < n_xl:
        return [(d, d_id - d) for d in range(min(d_id + 1, n_il))]
    first = d_id - n_xl + 1
    return [(first + d, n_xl - 1 - d) for d in range(min(n_il - first, n_xl))]


def _diag_crop(rng, length, n_s):
    """Optional cropping arguments [min_idx, max_idx, min_sample, max_sample] of a diagonal read."""
    c = rng.random()
    if c < 0.45 or length < 1:
        return []
    a, b = (None, None)
    if c < 0.85 and length >= 2:
        a, b = _rng_pair(rng, length, 4)
    z0, z1 = (None, None)
    if rng.random() < 0.7:
        z0, z1 = _rng_pair(rng, n_s, 16)
    if a is None and z0 is None:
        return []
    return [a, b, z0, z1]


def _gen_em_subvolume(rng, m):
    out = ['em_subvolume']
    for n, coords, unit in ((m['n_il'], m['ilines'], m['blockshape'][0]), (m['n_xl'], m['xlines'], m['blockshape'][1]),
                            (m['n_s'], [int(z) for z in m['zslices']], 4)):
        lo, hi = _rng_pair(rng, n, unit)
        d = int(coords[1] - coords[0]) if n > 1 else 1
        stop = int(coords[hi]) if hi < n else int(coords[-1]) + d
        out.append([int(coords[lo]), stop, d * rng.choice([1, 1, 2])] if rng.random() < 0.8 else [None, None, None])
    return out


def gen_call_2d(rng, m, kind='reader'):
    ntr, n_s = m['tracecount'], m['n_s']
    bs = m['blockshape']
    if kind == 'emulator' and rng.random() < 0.5:
        k = rng.randrange(4)
        if k == 0:
            return ['em_trace', _neg(rng, _idx(rng, ntr, bs[1]), ntr)]
        if k == 1:
            return ['em_header', _neg(rng, _idx(rng, ntr, bs[1]), ntr)]
        if k == 2:
            return ['em_attributes', rng.choice(m['stored'] + [37]) if m['stored'] else 37]
        lo, hi = _rng_pair(rng, ntr, bs[1])
        return ['em_trace', [lo, min(hi, lo + 6), None]]
    k = rng.randrange(7)
    if k == 0:
        return ['get_trace', _idx(rng, ntr, bs[1])]
    if k == 1:
        a, b = _rng_pair(rng, ntr, bs[1])
        e, f = _rng_pair(rng, n_s, min(bs[2], 16))
        return ['read_subplane', a, b, e, f]
    if k == 2:
        return ['gen_trace_header', _idx(rng, ntr, bs[1])]
    if k == 3:
        return ['get_tracefield_values', rng.choice(m['stored'] + [37]) if m['stored'] else 37]
    if k == 4:
        return ['gen_trace_header_all', _idx(rng, ntr, bs[1])]
    if k == 5:
        return rng.choice([['bin_header'], ['text_header'], ['attr', 'zslices'], ['attr', 'tracecount']])
    return ['get_trace', _idx(rng, ntr, bs[1])]


def gen_call_big(rng, m, kind='reader'):
    """Calls for the one large file of the library (a single inline group is a range read of several MiB, the data
    section one of 9 MiB): those whose cost does not grow with the number of trace columns."""
    n_il, n_xl, n_s, ntr = m['n_il'], m['n_xl'], m['n_s'], m['tracecount']
    k = rng.randrange(8)
    if kind == 'emulator':
        if k < 3:
            return ['em_iline', int(m['ilines'][_idx(rng, n_il, 4)])]
        if k < 5:
            return ['em_trace', _idx(rng, ntr, 4)]
        if k == 5:
            return ['em_header', _idx(rng, ntr, 4)]
        return ['em_xline', int(m['xlines'][_idx(rng, n_xl, 4)])]
    if k < 3:
        return ['read_inline', _idx(rng, n_il, 4)]
    if k == 3:
        return ['read_crossline', _idx(rng, n_xl, 4)]
    if k == 4:
        return ['get_trace', _idx(rng, ntr, 4)]
    if k == 5:
        e, f = _rng_pair(rng, n_s, 128)
        return ['get_trace', _idx(rng, ntr, 4), e, f]
    if k == 6:
        a = _idx(rng, n_il, 4)
        c_ = _idx(rng, n_xl, 4)
        e, f = _rng_pair(rng, n_s, 128)
        return ['read_subvolume', a, min(n_il, a + rng.randint(1, 5)), c_, min(n_xl, c_ + rng.randint(1, 9)), e, f]
    return ['gen_trace_header', _idx(rng, ntr, 4)]


def gen_call(rng, m, kind='reader'):
    if m.get('big'):
        return gen_call_big(rng, m, kind)
    if m['is_2d']:
        return gen_call_2d(rng, m, kind)
    return gen_call_3d(rng, m, kind)


def fixed_battery(m, kind='reader'):
    """A fixed set of calls covering every read method once or twice (first / last / middle)."""
    calls = []
    ntr, n_s = m['tracecount'], m['n_s']
    st = m['stored']
    if m.get('big'):
        calls = [['read_inline', 0], ['read_inline', m['n_il'] - 1], ['read_crossline', 5], ['get_trace', ntr - 1],
                 ['get_trace', 7, 100, 300], ['read_subvolume', 2, 6, 3, 9, 120, 260], ['gen_trace_header', ntr // 2]]
        if kind == 'emulator':
            calls += [['em_iline', int(m['ilines'][1])], ['em_trace', 3], ['em_header', 0]]
        return calls
    if m['is_2d']:
        calls += [['get_trace', 0], ['get_trace', ntr - 1], ['read_subplane', 0, ntr, 0, n_s],
                  ['read_subplane', ntr // 2, ntr // 2 + 1, max(0, n_s - 3), n_s],
                  ['gen_trace_header', 0], ['gen_trace_header', ntr - 1], ['gen_trace_header_all', ntr // 2]]
        calls += [['get_tracefield_values', f] for f in (st[:2] + [37])]
        calls += [['tracefield_sweep'], ['header_sweep', sorted({0, 1, ntr // 2, ntr - 1})]]
        calls += [['bin_header'], ['text_header'], ['attr', 'zslices'], ['attr', 'tracecount']]
        if kind == 'emulator':
            calls += [['em_trace', 0], ['em_trace', [0, min(ntr, 5), 2]], ['em_header', ntr - 1],
                      ['em_attributes', st[0] if st else 37], ['em_attributes_sweep'], ['em_bin'], ['em_text']]
        return calls
    n_il, n_xl = m['n_il'], m['n_xl']
    calls += [['read_inline', 0], ['read_inline', n_il - 1], ['read_crossline', 0], ['read_crossline', n_xl - 1],
              ['read_zslice', 0], ['read_zslice', n_s - 1], ['read_zslice', n_s // 2],
              ['read_subvolume', 0, n_il, 0, n_xl, 0, n_s],
              ['read_subvolume', n_il // 2, n_il // 2 + 1, n_xl // 3, n_xl // 3 + 2, max(0, n_s - 5), n_s],
              ['read_volume'], ['get_trace', 0], ['get_trace', ntr - 1], ['get_trace', ntr // 2, 1, min(n_s, 7)],
              ['read_correlated_diagonal', 0], ['read_correlated_diagonal', -(n_xl - 1) // 2],
              ['read_correlated_diagonal', 0, 0, min(n_il, n_xl), n_s // 3, max(n_s // 3 + 1, (2 * n_s) // 3)],
              ['read_anticorrelated_diagonal', min(n_il, n_xl) - 1, None, None, 0, max(1, n_s // 2)],
              ['read_anticorrelated_diagonal', 0], ['read_anticorrelated_diagonal', (n_il + n_xl - 2) // 2],
              ['read_inline_number', int(m['ilines'][-1])], ['read_crossline_number', int(m['xlines'][0])],
              ['read_zslice_coord', float(m['zslices'][-1])],
              ['gen_trace_header', 0], ['gen_trace_header', ntr - 1], ['gen_trace_header_all', ntr // 2]]
    calls += [['get_tracefield_values', f] for f in (st[:2] + [37])]
    calls += [['tracefield_sweep'], ['header_sweep', sorted({0, 1, ntr // 2, ntr - 1})]]
    calls += [['bin_header'], ['text_header'], ['attr', 'ilines'], ['attr', 'xlines'], ['attr', 'zslices'],
              ['attr', 'tracecount']]
    if kind == 'emulator':
        ils, xls = m['ilines'], m['xlines']
        calls += [['em_iline', int(ils[0])], ['em_xline', int(xls[-1])], ['em_depth', n_s - 1], ['em_trace', ntr - 1],
                  ['em_trace', [0, min(ntr, 5), 2]], ['em_header', 0], ['em_header', [max(0, ntr - 3), ntr, None]],
                  ['em_attributes', st[0] if st else 37], ['em_attributes_sweep'], ['em_bin'], ['em_text'],
                  ['em_subvolume', [None, None, None], [None, None, None], [None, None, None]]]
    return calls
