"""C18 — partial files: an interrupted conversion or copy never reads back as data.

A writer (converter of every route / detection mode, cropper, re-blocker) runs under the simulator
with a seeded write-buffer size; from the recorded OS-level write log every crash image is rebuilt
(each prefix of the write sequence, cuts inside each write, byte-length truncations of the finished
file).  Every read method is then applied to every image through several ways of opening it.
Oracle: the call raises, or returns bit for bit what the same call returns on the complete file.
"""
import collections
import hashlib
import json
import multiprocessing
import os
import shutil
import tempfile
import time

from sim import core, storage, env
from . import common, workloads, filelib, battery, readers

PID = 'C18'
OUT = storage.PREFIX + 'out.sgz'
SRC = storage.PREFIX + 'src.sgz'

OPENER_CYCLE = ['path', 'handle', 'preload', 'blob', 'emulator', 'ccs1', 'path', 'blob_preload', 'handle',
                'emulator_blob', 'preload', 'xarray', 'path', 'handle_nofd']

ASSUMPTIONS = [
    'crash model = what C18 states: any prefix of the OS-level write sequence (what CPython buffering actually '
    'hands to the OS for the seeded buffer size), a cut inside any single write, or any byte length of the finished '
    'file; re-ordering of un-synced writes by a power failure is outside the quantifier',
    'writing may also stop because a write fails: the k-th OS-level write raises ENOSPC (and every later one), or EIO '
    'once; what the output path holds when the writer call has returned, raised or hangs (state of the disk at the '
    'instant no thread can progress) is read like any other partial file',
    'reading a short file: local read() returns what is there; the blob fake answers InvalidRange when the range '
    'starts at or beyond the end and returns the available bytes otherwise',
    'get_source_data_hash()/__str__ are not in the battery (the digest is patched in last by construction: C20)',
    f'library version reported to the writer is stubbed to {env.STUB_VERSION}',
    'every converter run is made under the strictly sequential schedule and repeated under four seeded schedules '
    '(random, PCT, slow I/O, random with line-level pre-emption); where the OS-level write sequence differs its crash prefixes are examined too (the final '
    'bytes are schedule independent by C16, the order of the OS-level writes need not be)',
]


# --------------------------------------------------------------------------------------------
# writers
# --------------------------------------------------------------------------------------------

def writer_items(seed, tier, scratch):
    """Work items: {'w': 'convert', 'spec': ..} | {'w': 'crop', ..} | {'w': 'adv', ..}, each with a buffer size."""
    rng = core.stream(seed, 'c18', 'workload')
    specs = filelib.fixed_specs()
    n_random = 24 if tier == 'quick' else 500
    for _ in range(n_random):
        specs.append(workloads.gen_spec(rng, len(specs)))
    items = []
    for spec in specs:
        workloads.materialise(spec, scratch)
        # (the order in which a multi-threaded writer's bytes reach the OS may depend on the schedule:
        # one_item() repeats every converter run under three seeded non-sequential schedules and adds the
        # crash images of any run whose OS-level write sequence differs)
        items.append({'w': 'convert', 'spec': spec, 'buf': rng.choice(workloads.BUFSIZES), 'id': len(items),
                      'wsched': None, 'wseed': seed})
    # every detection mode x every buffer size on one regular SEG-Y (the in-place patch sequences)
    base = dict(route='segy', shape=[5, 6, 20], bits=4, blockshape=[4, 4, -1], fmt=1, il0=1, xl0=1, il_step=1,
                xl_step=1, data_seed=77)
    for det in workloads.DETECTIONS:
        for buf in workloads.BUFSIZES:
            spec = dict(base, detection=det, id=len(specs))
            specs.append(spec)
            workloads.materialise(spec, scratch)
            items.append({'w': 'convert', 'spec': spec, 'buf': buf, 'id': len(items)})
    # conversions onto an output path that already holds a complete SGZ of an earlier conversion (same
    # geometry, other samples; and another geometry): what is on disk while the new one is being written
    # is a partial file of the new conversion as well
    for k, (spec_id, old_seed, old_shape) in enumerate(((0, 4242, None), (7, 4243, None), (0, 4244, [13, 9, 40]))):
        old = dict(specs[spec_id], data_seed=old_seed, id=9100 + k)
        if old_shape:
            old['shape'] = old_shape
        old.pop('src', None)
        workloads.materialise(old, scratch)
        items.append({'w': 'convert', 'spec': specs[spec_id], 'buf': [4096, 65536, 512][k], 'id': len(items),
                      'wsched': None, 'wseed': seed, 'pre': old})
    crop_src = dict(route='numpy', shape=[9, 10, 30], bits=4, blockshape=[4, 4, -1], data_seed=5, id=9001)
    adv_src = dict(route='numpy', shape=[6, 7, 20], bits=2, blockshape=[4, 4, -1], data_seed=6, id=9002)
    for buf in ([4096, 512] if tier == 'quick' else workloads.BUFSIZES):
        items.append({'w': 'crop', 'spec': crop_src, 'args': [[4, 8], [0, 8], None], 'buf': buf, 'id': len(items)})
        items.append({'w': 'crop', 'spec': crop_src, 'args': [None, [4, 10], None], 'buf': buf, 'id': len(items)})
        items.append({'w': 'adv', 'spec': adv_src, 'buf': buf, 'id': len(items)})
    return items


def run_writer(item, wfault=None):
    """Runs the writer of item under the sequential schedule.  Returns (final bytes, os write log of
    the output path) or (None, None) when the writer itself refuses the configuration.

    wfault = (k, kind): the k-th OS-level write fails ('enospc': it and every later one; 'eio_once': it alone).
    Returns (what the output path holds when the call has returned, raised or - where a real process would hang -
    can no longer make progress; None when there is no such file, how the call ended)."""
    w = item['w']
    if w == 'convert':
        fs = storage.SimFS(bufsize=item['buf'])
        if item.get('pre'):
            old, _, _ = filelib.convert(item['pre'])
            if old is None:
                return None, None
            fs.add_file(OUT, old, read_only=False)
            fs.oslog.append((fs._next_seq(), OUT, 0, 'initial', 0, bytes(old), 'main'))
        fn = workloads.converter_fn(item['spec'], OUT)
    else:
        src, _, _ = filelib.convert(item['spec'])
        if src is None:
            return None, None
        fs = storage.SimFS(bufsize=item['buf'])
        fs.add_file(SRC, src)
        if w == 'crop':
            from seismic_zfp.cropping import SgzCropper
            a = [tuple(x) if x else None for x in item['args']]

            def fn():
                c = SgzCropper(SRC)
                try:
                    c.write_cropped_file_by_indexes(OUT, a[0], a[1], a[2])
                finally:
                    c.close()
        else:
            from seismic_zfp.conversion import SgzConverter

            def fn():
                c = SgzConverter(SRC)
                try:
                    c.convert_to_adv_sgz(OUT)
                finally:
                    c.close()
    if item.get('wsched'):
        chooser = core.make_chooser(item['wsched'], core.stream(item.get('wseed', 0), item['id'], 'writer-schedule'), est_steps=60)
    else:
        chooser = core.SeqChooser()
    if wfault is not None:
        fs.wfault = {'k': wfault[0], 'kind': wfault[1], 'n': 0, 'fired': 0}
    pre = (0.002, f"{item.get('wseed', 0)}:{item['id']}", 0.3) if item.get('wpre') else None
    r = env.run_sim(fn, fs, chooser, step_cap=10 ** 6, preempt=pre)
    readers.clear_caches()
    if wfault is not None:
        if not fs.wfault['fired']:
            return None, 'not-reached'
        if r.seq_at_abort is not None:
            files = storage.SimFS.replay([e for e in fs.oslog if e[0] <= r.seq_at_abort])
            return (bytes(files[OUT]) if OUT in files else None), r.status
        return (fs.image(OUT) if fs.exists(OUT) else None), r.status
    if r.status != 'ok' or not fs.exists(OUT):
        return None, None
    return fs.image(OUT), list(fs.oslog)


# --------------------------------------------------------------------------------------------
# crash images
# --------------------------------------------------------------------------------------------

def _cuts(off, n, rng):
    cuts = {1, n - 1}
    b = (off // 512 + 1) * 512
    while b < off + n:
        cuts.add(b - off)
        b += 512
    if n < 2048:
        cuts.update(range(64, n, 64))
        cuts.update(range(12, n, 12 * 7))
    for _ in range(4):
        if n > 2:
            cuts.add(rng.randrange(1, n))
    return sorted(c for c in cuts if 0 < c < n)


def section_boundaries(m, size):
    b = {0, 1, 2, 4, 64, 68, 72, 960, 980, 2048, size - 1}
    nh = m['n_header_blocks']
    for j in range(nh + 1):
        b.add(4096 * j)
    d0 = 4096 * nh
    nb = m['data_blocks']
    step = 1 if nb <= 48 else max(1, nb // 48)
    for j in range(0, nb + 1, step):
        b.add(d0 + 4096 * j)
    b.add(d0 + 4096 * nb)
    for k, off in m['offsets'].items():
        b.update((off, off + 4, off + m['hdr_len'], off + m['hdr_pad_len']))
    out = set()
    for x in b:
        out.update((x - 1, x, x + 1))
    return sorted(x for x in out if 0 <= x < size)


def crash_images(oslog, final, m, rng, exhaustive=False, max_images=None, seen=None, truncations=True):
    """Generator of (descriptor, bytes) — deduplicated by content (also against `seen`), never equal to
    the complete file.  Two passes: the descriptors are enumerated and, with max_images, selected first
    (every prefix, every first / last-byte cut and every section-boundary truncation is kept, the remaining
    cuts are sampled by the seeded stream); the images are then built one at a time, so that a large file
    costs time, not memory."""
    seen = seen if seen is not None else set()
    seen.add(hashlib.sha1(final).digest())
    # ---- pass 1: descriptors
    descs = []          # (descriptor, priority)
    k = 0
    exists = False
    for entry in oslog:
        if entry[3] in ('trunc', 'fsync', 'initial'):
            exists = exists or entry[1] == OUT
            continue
        if exists:
            descs.append((('prefix', k), 0))
        if entry[3] == 'write' and entry[1] == OUT:
            n = len(entry[5])
            for c in _cuts(entry[4], n, rng):
                descs.append((('torn', k, c), 0 if (c in (1, n - 1) or n < 2048) else 1))
            exists = True
        elif entry[3] == 'rename' and entry[1] == OUT:
            exists = True
        elif entry[3] == 'remove' and entry[1] == OUT:
            exists = False
        elif entry[1] == OUT:
            exists = True
        k += 1
    size = len(final)
    bounds = set(section_boundaries(m, size)) if truncations else set()
    if not truncations:
        ns = []
    elif exhaustive:
        # exhaustive = True, or (shard, n_shards): every byte length congruent to shard
        ns = range(size) if exhaustive is True else range(exhaustive[0], size, exhaustive[1])
    else:
        ns = set(bounds)
        ns.update(range(0, size, 512))
        for _ in range(8):
            ns.add(rng.randrange(size))
        ns = sorted(ns)
    for n in ns:
        descs.append((('trunc', n), 0 if n in bounds else 1))
    if max_images is not None and not exhaustive and len(descs) > max_images:
        must = [i for i, (_, p) in enumerate(descs) if p == 0]
        rest = [i for i, (_, p) in enumerate(descs) if p != 0]
        if len(must) > max_images:
            must = sorted(rng.sample(must, max_images))
            rest = []
        else:
            rest = rng.sample(rest, max_images - len(must))
        keep = {descs[i][0] for i in must + rest}
    else:
        keep = {d for d, _ in descs}
    return _build_images(oslog, final, keep, seen)


def _tagged(images, tag):
    for d, img in images:
        yield [d[0] + '@' + tag] + d[1:], img


def _build_images(oslog, final, keep, seen):
    # ---- pass 2: the whole simulated disk is replayed (the writer may write a temporary file and rename
    # it); a crash image is the content of the output path at that instant, if it exists at all
    def emit(desc, img):
        h = hashlib.sha1(img).digest()
        if h not in seen:
            seen.add(h)
            return (list(desc), bytes(img))
        return None
    files = {}
    k = 0
    for entry in oslog:
        if entry[3] in ('trunc', 'fsync', 'initial'):
            storage.SimFS.apply_fs(files, entry)          # 'initial': what the path held before the writer ran
            if entry[3] == 'initial':
                seen.add(hashlib.sha1(entry[5]).digest())  # the old complete file is not a partial file
            continue
        if OUT in files and ('prefix', k) in keep:
            r = emit(('prefix', k), files[OUT])
            if r:
                yield r
        if entry[3] == 'write' and entry[1] == OUT:
            cuts = sorted(d[2] for d in keep if d[0] == 'torn' and d[1] == k)
            for c in cuts:
                t = bytearray(files.get(OUT, b''))
                storage.SimFS.apply(t, entry, upto=c)
                r = emit(('torn', k, c), t)
                del t
                if r:
                    yield r
        storage.SimFS.apply_fs(files, entry)
        k += 1
    if bytes(files.get(OUT, b'')) != final:
        raise core.HarnessError('OS-level write log does not rebuild the final file')
    for n in sorted(d[1] for d in keep if d[0] == 'trunc'):
        r = emit(('trunc', n), final[:n])
        if r:
            yield r


def rebuild_image(oslog, final, desc):
    desc = [desc[0].split('@')[0]] + list(desc[1:])
    if desc[0] == 'trunc':
        return final[:desc[1]]
    files = {}
    k = 0
    for entry in oslog:
        if entry[3] in ('trunc', 'fsync', 'initial'):
            storage.SimFS.apply_fs(files, entry)
            continue
        if k == desc[1]:
            img = bytearray(files.get(OUT, b''))
            if desc[0] == 'torn':
                storage.SimFS.apply(img, entry, upto=desc[2])
            return bytes(img)
        storage.SimFS.apply_fs(files, entry)
        k += 1
    return bytes(files.get(OUT, b''))


# --------------------------------------------------------------------------------------------
# evaluation of one image
# --------------------------------------------------------------------------------------------

def section_of(m, off):
    d0 = 4096 * m['n_header_blocks']
    d1 = d0 + 4096 * m['data_blocks']
    if off < d0:
        return 'header'
    if off < d1:
        return 'data'
    return 'footer'


MODES = ['fresh', 'fresh', 'session', 'stale', 'fresh', 'session']


def eval_image(img, opener, calls, truth, m, mode='fresh', sibling=None):
    """Returns list of (call, partial outcome, truth outcome, first short request section).

    mode 'fresh'  : a fresh process and a fresh reader per call;
         'session': one reader object for the whole battery (what a later call returns after an earlier one was
                    refused is judged too);
         'stale'  : the same process has, just before, opened and read another *complete* file with the same geometry
                    at the same path (which the partial file then replaced: new inode, new modification time); fresh
                    reader per call, process-wide state of the library kept."""
    fs = storage.SimFS()
    fs.add_file(readers.FPATH, img)
    kind = readers.OPENERS[opener]['kind']
    bad = []
    n = [0]
    if mode == 'stale' and sibling is None:
        mode = 'fresh'

    def fn():
        obj = None
        opened = None
        if mode == 'stale':
            readers.clear_caches()
            fs.replace_content(readers.FPATH, sibling)
            for call in calls:
                if readers.applicable(kind, call):
                    readers.fresh_outcome(fs, opener, call, clear=False)
            fs.replace_content(readers.FPATH, img)
        elif mode == 'session':
            readers.clear_caches()
            cur[0] = next((c for c in calls if readers.applicable(kind, c)), None)    # (should open itself never return)
            try:
                obj = readers.open_obj(fs, opener)
            except (core.SimAbort, core.HarnessError):
                raise
            except Exception as e:
                opened = ('exc', type(e).__name__)
        try:
            for call in calls:
                if not readers.applicable(kind, call):
                    continue
                fs.reqlog.clear()
                cur[0] = call
                if mode == 'session':
                    got = opened if obj is None else battery.outcome(lambda: battery.apply_call(obj, call))
                else:
                    got = readers.fresh_outcome(fs, opener, call, clear=(mode == 'fresh'))
                judge(call, got)
        finally:
            if obj is not None:
                readers.close_obj(obj)

    cur = [None]

    def judge(call, got):
        if True:
            n[0] += 1
            want = truth[(kind, repr(call))]
            if battery.acceptable(got, want):
                return
            sec = 'none'
            for (_, _, _, off, req, ret, _) in fs.reqlog:
                if ret < req:
                    sec = section_of(m, off)
                    break
            bad.append((call, got, want, sec))
    r = env.run_sim(fn, fs, core.SeqChooser(), step_cap=400000)
    if r.status in ('stepcap', 'deadlock') and cur[0] is not None:
        # the read neither raised nor returned (a loop that waits for bytes that will never come)
        kind_ = readers.OPENERS[opener]['kind']
        bad.append((cur[0], ('hang', r.status), truth[(kind_, repr(cur[0]))], 'none'))
        return bad, n[0] + 1
    if r.status != 'ok':
        raise core.HarnessError(f'image evaluation ended with {r.status}: {r.exc!r}')
    return bad, n[0]


def calls_for(m, rng, n_extra):
    calls = battery.fixed_battery(m, 'emulator')
    if readers.HAVE_XARRAY and not m['is_2d']:
        n_il, n_xl, n_s = m['n_il'], m['n_xl'], m['n_s']
        calls += [['xr_isel', [0, n_il, None], [0, n_xl, None], [0, n_s, None]],
                  ['xr_isel', [n_il // 2, n_il // 2 + 1, None], [0, n_xl, None], [max(0, n_s - 5), n_s, None]],
                  ['xr_isel', [0, 1, None], [n_xl - 1, n_xl, None], [0, n_s, None]]]
    seen = {repr(c) for c in calls}
    for _ in range(n_extra):
        c = battery.gen_call(rng, m, rng.choice(['reader', 'reader', 'emulator']))
        if repr(c) not in seen:
            seen.add(repr(c))
            calls.append(c)
    return calls


def signature(m, call, sec, got, mode='fresh'):
    how = 'never-returned' if got and got[0] == 'hang' else 'returned'
    return f"{m['layout']}|{m['kind']}|{call[0]}|short-read-in-{sec}|{how}" + ('' if mode == 'fresh' else '|' + mode)


def one_item(ctx, item):
    """One writer run, all of its crash images, all calls."""
    seed = ctx['seed']
    rng = core.stream(seed, item['id'], 'faults')
    rec = {'id': item['id'], 'w': item['w'], 'images': 0, 'pairs': 0, 'violations': [], 'skipped': None,
           'img_kinds': collections.Counter(), 'layout': None, 'raised': 0, 'openers': collections.Counter()}
    final, oslog = run_writer(item)
    if final is None:
        rec['skipped'] = 'writer refused the configuration'
        return rec
    try:
        m = filelib.read_meta(final)
    except core.HarnessError:
        raise
    except Exception as e:
        rec['skipped'] = f'complete file does not open: {type(e).__name__}'
        return rec
    if not filelib.usable(m):
        rec['skipped'] = 'degenerate axes'
        return rec
    rec['layout'] = f"{m['kind']}/{m['layout']}"
    rec['os_writes'] = sum(1 for e in oslog if e[3] not in ('trunc', 'fsync', 'initial'))
    calls = calls_for(m, core.stream(seed, item['id'], 'workload'), ctx['n_extra'])
    truth = readers.truth_table(final, {k: [c for c in calls if readers.applicable(k, c)]
                                        for k in ('reader', 'emulator', 'xarray')})
    seen = set()
    ex = item.get('exhaustive', False)
    streams = [crash_images(oslog, final, m, rng, exhaustive=tuple(ex) if isinstance(ex, list) else ex,
                            max_images=ctx['max_images'], seen=seen)]
    if isinstance(ex, list):
        # the shards share the prefixes: done by the plain item
        streams = [(im for im in streams[0] if im[0][0] == 'trunc')]
    rec['alt_schedules'] = 0
    if item['w'] == 'convert' and not item.get('exhaustive'):
        # the same conversion under other schedules: where the bytes reach the OS in another order, the
        # prefixes of that order are crash states too
        shape_of = lambda log: [(e[1], e[3], e[4], len(e[5])) for e in log if e[3] not in ('fsync', 'initial')]
        for j, pol in enumerate(('random', 'pct2', 'ioslow', 'random')):
            # (the fourth also pre-empts at source-line level, in bursts after intercepted operations)
            alt = dict(item, wsched=pol, wseed=f"{item.get('wseed', 0)}:{j}", wpre=(j == 3))
            final2, oslog2 = run_writer(alt)
            if final2 is None or final2 != final or shape_of(oslog2) == shape_of(oslog):
                continue             # (different final bytes are C16's finding, not examined here)
            rec['alt_schedules'] += 1
            more = crash_images(oslog2, final, m, rng, max_images=ctx['max_images'], seen=seen, truncations=False)
            streams.append(_tagged(more, f'{pol}:{j}'))
    sig_seen = set()
    import itertools
    sibling = filelib.make_sibling(final, m)
    mrng = core.stream(seed, item['id'], 'modes')
    rec['modes'] = collections.Counter()
    for i, (desc, img) in enumerate(itertools.chain(*streams)):
        opener = OPENER_CYCLE[(i + item['id']) % len(OPENER_CYCLE)]
        if opener == 'xarray' and (m['is_2d'] or not readers.HAVE_XARRAY):
            opener = 'path'
        mode = mrng.choice(MODES)
        if mode == 'stale' and sibling is None:
            mode = 'fresh'
        common.mark({'image': desc, 'opener': opener, 'mode': mode})
        bad, n = eval_image(img, opener, calls, truth, m, mode, sibling)
        rec['images'] += 1
        rec['pairs'] += n
        rec['img_kinds'][desc[0].split('@')[0]] += 1
        rec['openers'][opener] += 1
        rec['modes'][mode] += 1
        for call, got, want, sec in bad:
            sig = signature(m, call, sec, got, mode)
            if sig in sig_seen and len(rec['violations']) > 40:
                continue
            sig_seen.add(sig)
            v = {'signature': sig, 'image': desc, 'opener': opener, 'call': call, 'mode': mode,
                 'got': repr(got)[:200], 'want': repr(want)[:200], 'size': len(img)}
            if mode != 'fresh':
                kind = readers.OPENERS[opener]['kind']
                app = [c for c in calls if readers.applicable(kind, c)]
                v['calls_before'] = app[:app.index(call)]
            rec['violations'].append(v)
    # ---- the writer meets a failing write (disk full from there on; one transient I/O error): whatever it
    # leaves under the output name when it returns, raises or hangs is a partial file as well
    rec['wfaults'] = collections.Counter()
    if not item.get('exhaustive') and ctx.get('max_wfaults'):
        frng = core.stream(seed, item['id'], 'wfaults')
        cands = [(k, kind) for k in range(rec['os_writes']) for kind in ('enospc', 'eio_once')]
        if len(cands) > ctx['max_wfaults']:
            cands = sorted(frng.sample(cands, ctx['max_wfaults']))
        for j, (k, kind) in enumerate(cands):
            img, status = run_writer(item, wfault=(k, kind))
            rec['wfaults'][f'{kind}:{status}'] += 1
            if img is None:
                continue
            h = hashlib.sha1(img).digest()
            if h in seen:
                rec['wfaults']['image_already_examined'] += 1
                continue
            seen.add(h)
            desc = ['wfault', k, kind]
            opener = OPENER_CYCLE[(j + item['id']) % len(OPENER_CYCLE)]
            if opener == 'xarray' and (m['is_2d'] or not readers.HAVE_XARRAY):
                opener = 'path'
            common.mark({'image': desc, 'opener': opener, 'mode': 'fresh'})
            bad, n = eval_image(img, opener, calls, truth, m)
            rec['images'] += 1
            rec['pairs'] += n
            rec['img_kinds']['wfault'] += 1
            for call, got, want, sec in bad:
                sig = signature(m, call, sec, got) + '|after-write-fault'
                if sig in sig_seen and len(rec['violations']) > 40:
                    continue
                sig_seen.add(sig)
                rec['violations'].append({'signature': sig, 'image': desc, 'opener': opener, 'call': call, 'mode': 'fresh',
                                          'got': repr(got)[:200], 'want': repr(want)[:200], 'size': len(img)})
    rec['wfaults'] = dict(rec['wfaults'])
    rec['modes'] = dict(rec['modes'])
    rec['img_kinds'] = dict(rec['img_kinds'])
    rec['openers'] = dict(rec['openers'])
    return rec


# --------------------------------------------------------------------------------------------
# replay
# --------------------------------------------------------------------------------------------

def replay_doc(doc, scratch):
    item = doc['item']
    if item['w'] == 'convert':
        workloads.materialise(item['spec'], scratch)
        if item.get('pre'):
            workloads.materialise(item['pre'], scratch)
    final, oslog = run_writer(item)
    if final is None:
        raise common.HarnessFailure('writer of the replayed item failed')
    if '@' in str(doc['image'][0]):           # image of a run under another schedule: policy:index
        pol, j = doc['image'][0].split('@')[1].split(':')
        _, oslog = run_writer(dict(item, wsched=pol, wseed=f"{item.get('wseed', 0)}:{j}", wpre=(j == '3')))
    m = filelib.read_meta(final)
    call = doc['call']
    kind = readers.OPENERS[doc['opener']]['kind']
    truth = readers.truth_table(final, {kind: [call]})
    if doc['image'][0] == 'wfault':
        img, _ = run_writer(item, wfault=(doc['image'][1], doc['image'][2]))
        if img is None:
            return None, ''
    else:
        img = rebuild_image(oslog, final, doc['image'])
    mode = doc.get('mode', 'fresh')
    calls = [call]
    if mode != 'fresh':
        # the earlier calls of the battery are part of the history: the recorded list up to the failing call
        calls = [c for c in doc.get('calls_before', [])] + [call]
        truth = readers.truth_table(final, {kind: calls})
    bad, _ = eval_image(img, doc['opener'], calls, truth, m, mode, filelib.make_sibling(final, m))
    bad = [b for b in bad if b[0] == call]
    if not bad:
        return None, ''
    call, got, want, sec = bad[0]
    return signature(m, call, sec, got, mode) + ('|after-write-fault' if doc['image'][0] == 'wfault' else ''), f'partial file ({doc["image"]}, {len(img)} of {len(final)} bytes) opened via ' \
        f'{doc["opener"]} ({mode}): {call} returned {got} but the complete file gives {want}'


def _replay_child(doc, scratch, q):
    try:
        q.put(replay_doc(doc, scratch))
    except BaseException as e:
        q.put(('error', repr(e)))


def cmd_replay(path):
    doc = json.load(open(path))
    scratch = tempfile.mkdtemp(prefix='verif_c18_')
    try:
        mp = multiprocessing.get_context('fork')
        q = mp.SimpleQueue()
        p = mp.Process(target=_replay_child, args=(doc, scratch, q))
        p.start()
        p.join(600)
        if p.exitcode is None:
            p.kill()
            common.harness_exit('replay timed out')
        if p.exitcode != 0:
            sig, what = 'worker_crash', f'the reading process died with exit code {p.exitcode}'
        else:
            sig, what = q.get()
            if sig == 'error':
                common.harness_exit(f'replay failed: {what}')
    finally:
        shutil.rmtree(scratch, ignore_errors=True)
    if sig == doc['signature']:
        print(f'VIOLATION property={PID} replay={path}')
        print(f'  signature={sig} :: {what}')
        return 1
    print(f'replay did not reproduce: expected {doc["signature"]}, got {sig}')
    return 0 if sig is None else 1


# --------------------------------------------------------------------------------------------
# main
# --------------------------------------------------------------------------------------------

def main(tier, seed):
    t0 = time.time()
    scratch = tempfile.mkdtemp(prefix='verif_c18_')
    try:
        return _main(tier, seed, scratch, t0)
    finally:
        shutil.rmtree(scratch, ignore_errors=True)


def _main(tier, seed, scratch, t0):
    quick = tier == 'quick'
    items = writer_items(seed, tier, scratch)
    if not quick:
        # exhaustive byte-length sweep on two small files
        for spec_id in (0, 14):
            for shard in range(32):           # every byte length of two small files, in 32 parallel shards
                items.append(dict(items[spec_id], id=len(items), exhaustive=[shard, 32]))
    ctx = {'seed': seed, 'n_extra': 12 if quick else 24, 'max_images': 150 if quick else 1200,
           'max_wfaults': 8 if quick else 60}
    # determinism self-test: same item twice
    stable = _stable
    a = one_item(ctx, items[0])
    b = one_item(ctx, items[0])
    if stable(a) != stable(b):
        common.harness_exit('nondeterminism: the same writer item evaluated twice gave different records')
    deadline = time.time() + common.budget_s(240 if quick else 1500)
    mark_dir = os.path.join(scratch, 'marks')
    os.makedirs(mark_dir)
    # big items first
    order = sorted(items, key=lambda it: (not it.get('exhaustive', False), it['id']))
    results, skipped, crashed = common.run_parallel(one_item, ctx, order, deadline=deadline, chunk=1,
                                                    mark_dir=mark_dir, per_batch_timeout=1200)
    evaluations = 0
    images = 0
    img_kinds = collections.Counter()
    openers = collections.Counter()
    modes = collections.Counter()
    wfaults = collections.Counter()
    wscheds = collections.Counter()
    layouts = collections.Counter()
    writers = collections.Counter()
    skipped_items = collections.Counter()
    viols = {}
    samples = []
    os_writes = 0
    n_fixed = len(filelib.fixed_specs())
    lost = []
    for item, rec in results:
        if rec['skipped']:
            skipped_items[rec['skipped']] += 1
            if item['w'] != 'convert' or item['spec']['id'] < n_fixed or item['spec'].get('data_seed') == 77:
                lost.append(f"{item['w']} #{item['id']}: {rec['skipped']}")
            continue
        evaluations += rec['pairs']
        images += rec['images']
        os_writes += rec.get('os_writes', 0)
        img_kinds.update(rec['img_kinds'])
        openers.update(rec.get('openers', {}))
        modes.update(rec.get('modes', {}))
        wfaults.update(rec.get('wfaults', {}))
        wscheds['writer_runs_with_another_os_write_order'] += rec.get('alt_schedules', 0)
        layouts[rec['layout']] += 1
        writers[rec['w']] += 1
        if len(samples) < 3 and rec['images']:
            samples.append({'writer': rec['w'], 'layout': rec['layout'], 'os_writes': rec.get('os_writes'),
                            'crash_images': rec['images'], 'image_kinds': rec['img_kinds'],
                            'input': {k: v for k, v in item.get('spec', {}).items() if k not in ('src', 'drop')},
                            'buf': item['buf']})
        for v in rec['violations']:
            viols.setdefault(v['signature'], []).append((item, v))
    for c in crashed:
        sig = 'worker_crash'
        viols.setdefault(sig, []).append((None, {'signature': sig, 'crash': c}))

    known = common.load_known(PID)
    if lost and not any(sig not in known for sig in viols):
        # nothing found, but part of the fixed workload produced nothing to examine: not a pass
        common.harness_exit('fixed writer runs produced no usable file, the check cannot vouch for anything: '
                            + '; '.join(lost[:5]))
    reported = []
    by_id = {it['id']: it for it in items}
    for sig, lst in sorted(viols.items()):
        item, v = min(lst, key=lambda x: x[1].get('size', 0))
        if sig == 'worker_crash':
            c = v['crash']
            it = c['item']
            det = c['detail'] or {}
            doc = {'property': PID, 'seed': seed, 'signature': sig, 'item': _clean(it), 'image': det.get('image'),
                   'opener': det.get('opener'), 'call': None,
                   'what': 'reader process died while reading a partial file'}
            path = common.write_replay(PID, seed, f"{it['id']}-crash", doc)
        else:
            doc = {'property': PID, 'seed': seed, 'signature': sig, 'item': _clean(item), 'image': v['image'],
                   'opener': v['opener'], 'call': v['call'], 'got': v['got'], 'want': v['want'],
                   'mode': v.get('mode', 'fresh'), 'calls_before': v.get('calls_before', []),
                   'occurrences': len(lst),
                   'what': f"partial file {v['image']} ({v['size']} bytes) via {v['opener']}: {v['call']} returned "
                           f"{v['got'][:80]} instead of raising or {v['want'][:80]}"}
            path = common.write_replay(PID, seed, f"{item['id']}-{common.sha(sig.encode())[:8]}", doc)
        reported.append({'signature': sig, 'replay': path, 'what': doc['what']})
    wall = time.time() - t0
    coverage = {
        'evaluations': evaluations,
        'distinct_nontrivial': images,
        'rule': 'one evaluation = one (crash image, way of opening, read call) triple; distinct_nontrivial = number of '
                'crash images with distinct content that differ from the complete file (prefixes of the OS-level write '
                'log, cuts inside a write, byte-length truncations), enumerated per writer run',
        'samples': samples or [{'note': 'none'}],
        'writer_runs': sum(writers.values()),
        'writer_kinds': dict(writers),
        'writer_runs_skipped': dict(skipped_items),
        'items_skipped_for_budget': len(skipped),
        'os_level_writes_total': os_writes,
        'crash_image_kinds': dict(img_kinds),
        'images_per_way_of_opening': dict(openers),
        'images_per_reading_mode': dict(modes),
        'reading_modes': 'fresh = fresh process and fresh reader per call; session = one reader object for the whole '
                         'battery; stale = the process has just read a complete same-geometry file at the same path, which '
                         'the partial file then replaced (new inode and modification time), library state kept',
        'writer_schedules': dict(wscheds),
        'layouts': dict(layouts),
        'exhaustive': False,
        'exhaustive_note': 'per writer run the prefixes are complete; torn / truncation cuts are at sector and section '
                           'boundaries +-1 plus seeded offsets (thorough: every byte length for two small files)',
        'fault_counts': {'crash_prefix': img_kinds.get('prefix', 0), 'torn_write': img_kinds.get('torn', 0),
                         'truncated_copy': img_kinds.get('trunc', 0),
                         'writer_runs_with_a_failing_write (kind:how the call ended)': dict(wfaults),
                         'distinct_images_left_by_a_failing_write': img_kinds.get('wfault', 0)},
        'runs_per_hour': int(sum(writers.values()) / max(1e-9, wall) * 3600),
        'images_per_hour': int(images / max(1e-9, wall) * 3600),
        'determinism_selftest': {'writer_items_evaluated_twice_in_process': 1, 'mismatches': 0},
        'simulated_time_s': 'not measured: crash images are states of the simulated disk, no clock is involved in reading them',
        'worker_crashes': len(crashed),
        'components_real': ['seismic_zfp readers, loaders, converters, cropper, re-blocker', 'zfpy', 'numpy',
                            'segyio (real SEG-Y inputs)', 'io.BufferedWriter/BufferedRandom'],
        'components_stubbed': ['open -> SimFS (write log, crash images)', 'blob client -> SimBlob',
                               'threads/queues/pools -> simulated, sequential schedule',
                               'pkg_resources version -> ' + env.STUB_VERSION],
        'known_findings_matched': sorted(s for s in viols if s in known),
    }
    nviol = sum(1 for v in reported if v['signature'] not in known)
    common.write_evidence(PID, tier, seed, 'fault_enumeration', coverage, ASSUMPTIONS, wall, nviol)
    code = common.conclude(PID, reported, known)
    print(f'{PID} {tier}: {sum(writers.values())} writer runs, {images} crash images, {evaluations} (image, opener, call) '
          f'evaluations, {len(viols)} violating signatures, {wall:.0f}s, exit {code}')
    return code


def _clean(item):
    it = dict(item)
    if 'spec' in it:
        it['spec'] = {k: v for k, v in it['spec'].items() if k != 'src'}
    if it.get('pre'):
        it['pre'] = {k: v for k, v in it['pre'].items() if k != 'src'}
    return it


def _stable(rec):
    # the *value* a violating read returns may be heap garbage (the codec reads past a short
    # buffer), hence legitimately unstable; everything else must repeat exactly
    r = dict(rec, violations=[{k: v for k, v in x.items() if k != 'got'} for x in rec['violations']])
    return json.dumps(r, sort_keys=True, default=str)


def selftest_digests(seed, n, scratch):
    items = writer_items(seed, 'quick', scratch)[:n]
    ctx = {'seed': seed, 'n_extra': 6, 'max_images': 40, 'max_wfaults': 4}
    results, _, _ = common.run_parallel(lambda c, it: common.sha(_stable(one_item(c, it)).encode()), ctx, items, chunk=1)
    return [d for _, d in sorted(results, key=lambda x: x[0]['id'])]
