#!/venv/bin/python
"""check.py <property> quick|thorough        run the check, write evidence/<id>.json
   check.py <property> --replay <file>       re-execute a recorded violation

exit 0: held on everything explored; 1: VIOLATION line(s) printed; 3: HARNESS-ERROR.
"""
import os
import sys

HERE = os.path.dirname(os.path.abspath(__file__))
if HERE not in sys.path:
    sys.path.insert(0, HERE)

# hash randomisation must not be able to influence anything: pin it and re-exec once
if os.environ.get('PYTHONHASHSEED') is None:
    os.environ['PYTHONHASHSEED'] = '0'
    os.execv(sys.executable, [sys.executable, '-B'] + sys.argv)

import importlib          # noqa: E402
import resource           # noqa: E402
import traceback          # noqa: E402

CHECKS = {'C16': 'harness.c16', 'C18': 'harness.c18', 'C17': 'harness.c17', 'C15': 'harness.c15',
          'C07': 'harness.c07'}


def main(argv):
    if len(argv) < 3 or argv[1] not in CHECKS:
        print(__doc__)
        return 2
    pid = argv[1]
    try:
        resource.setrlimit(resource.RLIMIT_AS, (12 << 30, 12 << 30))
    except (ValueError, OSError):
        pass
    from harness import common
    from sim import core

    # a harness hang (a real blocking call reached from simulated code) must never look like a pass or
    # like a violation: after the wall-clock limit, exit 3
    import threading

    def _give_up():
        print('HARNESS-ERROR wall-clock limit reached (a simulated thread is probably blocked in a real call)', flush=True)
        import multiprocessing
        for ch in multiprocessing.active_children():      # never leave workers behind
            try:
                ch.kill()
            except Exception:
                pass
        os._exit(3)
    limit = float(os.environ.get('VERIF_WALL_S', '0')) or \
        (common.budget_s(900 if argv[2] != 'thorough' else 3600) + (3000 if argv[2] != 'thorough' else 9000))
    wd = threading.Timer(limit, _give_up)
    wd.daemon = True
    wd.start()
    try:
        mod = importlib.import_module(CHECKS[pid])
        if argv[2] == '--replay':
            return mod.cmd_replay(argv[3])
        if argv[2] == '--digests':
            import json
            import shutil
            import tempfile
            scratch = tempfile.mkdtemp(prefix='verif_dig_')
            try:
                print('DIGESTS ' + json.dumps(mod.selftest_digests(common.env_seed(), int(argv[3]), scratch)))
            finally:
                shutil.rmtree(scratch, ignore_errors=True)
            return 0
        tier = os.environ.get('VERIF_TIER') or argv[2]
        if tier not in ('quick', 'thorough'):
            print(__doc__)
            return 2
        return mod.main(tier, common.env_seed())
    except (common.HarnessFailure, core.HarnessError) as e:
        print(f'HARNESS-ERROR {e}', flush=True)
        return 3
    except SystemExit:
        raise
    except BaseException:
        traceback.print_exc()
        print('HARNESS-ERROR unexpected exception in the harness', flush=True)
        return 3


if __name__ == '__main__':
    sys.exit(main(sys.argv))
