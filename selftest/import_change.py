"""Copies one deliverable of a sub-agent (changeN.diff, demoN.py, metaN.json in an output directory) into
/verif/seeded/<id>/ or /verif/sound/<id>/ under the names the self-tests expect.

    python -B selftest/import_change.py seeded|sound <outdir> <N> <id> <origin> [property]
"""
import json
import os
import shutil
import sys

kind, out, n, sid, origin = sys.argv[1:6]
dst = os.path.join(os.path.dirname(os.path.dirname(os.path.abspath(__file__))), kind, sid)
os.makedirs(dst, exist_ok=True)
shutil.copy(os.path.join(out, f'change{n}.diff'), os.path.join(dst, 'patch.diff'))
shutil.copy(os.path.join(out, f'demo{n}.py'), os.path.join(dst, 'demo.py'))
meta = json.load(open(os.path.join(out, f'meta{n}.json')))
meta['origin'] = origin
if len(sys.argv) > 6:
    meta['property'] = sys.argv[6]
json.dump(meta, open(os.path.join(dst, 'meta.json'), 'w'), indent=1)
print(dst, sorted(os.listdir(dst)))
