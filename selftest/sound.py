"""Negative controls: property-preserving changes kept under /verif/sound/<id>/ (patch.diff, meta.json with
"checks": the properties whose mechanisms the change touches).  Each is applied to a scratch copy of the
repository; every listed check must exit 0 on it (no VIOLATION, no HARNESS-ERROR).

    python -B selftest/sound.py [--budget S] [id-or-property ...]
"""
import json
import os
import shutil
import subprocess
import sys
import time

HERE = os.path.dirname(os.path.abspath(__file__))
VERIF = os.path.dirname(HERE)
sys.path.insert(0, HERE)
import seeded as _seeded          # noqa: E402   (scratch copy / patch helpers)

SOUND = os.path.join(VERIF, 'sound')
PY = sys.executable


def main(argv):
    args = argv[1:]
    budget = None
    sel = []
    i = 0
    while i < len(args):
        if args[i] == '--budget':
            budget = args[i + 1]
            i += 1
        else:
            sel.append(args[i])
        i += 1
    bad = []
    n = 0
    for sid in sorted(os.listdir(SOUND)) if os.path.isdir(SOUND) else []:
        sdir = os.path.join(SOUND, sid)
        mp = os.path.join(sdir, 'meta.json')
        if not os.path.exists(mp):
            continue
        meta = json.load(open(mp))
        for pid in meta['checks']:
            if sel and sid not in sel and pid not in sel:
                continue
            d, root = _seeded.scratch_copy()
            try:
                _seeded.apply_patch(root, os.path.join(sdir, 'patch.diff'))
                e = dict(os.environ, VERIF_REPO=root, VERIF_EVIDENCE_DIR=os.path.join(d, 'ev'),
                         VERIF_REPLAY_DIR=os.path.join(d, 'rp'))
                if budget:
                    e['VERIF_BUDGET_S'] = str(budget)
                t = time.time()
                p = subprocess.run([PY, '-B', os.path.join(VERIF, 'check.py'), pid, 'quick'], env=e,
                                   capture_output=True, text=True, cwd=VERIF)
                n += 1
                verdict = 'QUIET' if p.returncode == 0 else ('FALSE-ALARM' if p.returncode == 1 else f'ERROR({p.returncode})')
                print(f'{verdict:12s} {sid:40s} {pid} {time.time() - t:5.0f}s  {meta.get("summary", "")[:80]}', flush=True)
                if p.returncode != 0:
                    bad.append((sid, pid))
                    for l in p.stdout.splitlines():
                        if l.startswith(('VIOLATION', '  signature', 'HARNESS')):
                            print('      ' + l[:400])
                    if p.returncode not in (0, 1):
                        print(p.stdout[-1200:] + p.stderr[-1200:])
            finally:
                shutil.rmtree(d, ignore_errors=True)
    print(f'{n - len(bad)}/{n} quiet; alarms on property-preserving changes: {bad}')
    return 1 if bad else 0


if __name__ == '__main__':
    sys.exit(main(sys.argv))
