"""Stub-conformance self-test: ties the simulator's stand-ins to the things they stand for.

    python -B selftest/conformance.py [seed]

1. SimQueue / SimLifoQueue vs queue.Queue / LifoQueue, SimLock / SimRLock / SimSemaphore / SimEvent vs
   the threading originals: random single-threaded sequences of non-blocking operations must give the
   same return values and raise the same exception types.
2. SimExecutor vs ThreadPoolExecutor: results, stored exceptions, map(), shutdown semantics.
3. SimFS OS-level write log vs strace of the same conversion on a real file: the sequence of
   (offset, length) writes that reach the operating system must be identical (this is what the crash
   images of C18 are built from), and the final bytes must be equal.
4. SimReadHandle vs a real file opened 'rb': type, read / seek / tell / readinto / EOF behaviour.
"""
import io
import os
import queue
import random
import re
import shutil
import subprocess
import sys
import tempfile
import threading
import concurrent.futures as cf

HERE = os.path.dirname(os.path.abspath(__file__))
VERIF = os.path.dirname(HERE)
sys.path.insert(0, VERIF)

from sim import core, storage, env          # noqa: E402
from harness import workloads, segygen      # noqa: E402

FAILS = []


def check(cond, what):
    if not cond:
        FAILS.append(what)
        print('  MISMATCH', what)


def outcome(fn):
    try:
        return ('ok', fn())
    except Exception as e:
        return ('exc', type(e).__name__)


def in_sim(fn):
    fs = storage.SimFS()
    r = env.run_sim(fn, fs, core.SeqChooser(), step_cap=10 ** 6)
    if r.status != 'ok':
        raise SystemExit(f'conformance: simulated part ended with {r.status}: {r.exc!r}')
    return r.value


# ------------------------------------------------------------------------------------------------
def queues(rng, n_seq=300):
    for kind in ('Queue', 'LifoQueue'):
        for _ in range(n_seq):
            cap = rng.choice([0, 1, 2, 3])
            ops = [rng.choice(['put_nowait', 'get_nowait', 'task_done', 'qsize', 'empty', 'full', 'put_t', 'get_t'])
                   for _ in range(rng.randint(1, 25))]

            def drive(q):
                out = []
                k = 0
                for op in ops:
                    if op == 'put_nowait':
                        k += 1
                        out.append(outcome(lambda: q.put_nowait(k)))
                    elif op == 'put_t':
                        k += 1
                        out.append(outcome(lambda: q.put(k, timeout=0.001)))
                    elif op == 'get_t':
                        out.append(outcome(lambda: q.get(timeout=0.001)))
                    else:
                        out.append(outcome(getattr(q, op)))
                return out
            real = drive(getattr(queue, kind)(cap))
            simq = core.SimQueue if kind == 'Queue' else core.SimLifoQueue
            sim = in_sim(lambda: drive(simq(cap)))
            check(real == sim, f'{kind}(maxsize={cap}) ops {ops}: real {real} sim {sim}')
    print(f'queues: {2 * n_seq} op sequences compared')


def primitives(rng, n_seq=300):
    n = 0
    for _ in range(n_seq):
        ops = [rng.choice(['acq_nb', 'rel', 'locked']) for _ in range(rng.randint(1, 12))]

        def drive_lock(lock):
            out = []
            for op in ops:
                if op == 'acq_nb':
                    out.append(outcome(lambda: lock.acquire(blocking=False)))
                elif op == 'rel':
                    out.append(outcome(lock.release))
                elif hasattr(lock, 'locked'):
                    out.append(outcome(lock.locked))
            return out
        check(drive_lock(threading.Lock()) == in_sim(lambda: drive_lock(core.SimLock())), f'Lock ops {ops}')
        ops2 = [o for o in ops if o != 'locked']
        ops_saved, ops = ops, ops2
        check(drive_lock(threading.RLock()) == in_sim(lambda: drive_lock(core.SimRLock())), f'RLock ops {ops2}')
        ops = ops_saved
        v = rng.choice([0, 1, 2])

        def drive_sem(sem):
            out = []
            for op in ops:
                if op == 'acq_nb':
                    out.append(outcome(lambda: sem.acquire(blocking=False)))
                elif op == 'rel':
                    out.append(outcome(sem.release))
            return out
        check(drive_sem(threading.Semaphore(v)) == in_sim(lambda: drive_sem(core.SimSemaphore(v))), f'Semaphore({v}) {ops}')
        check(drive_sem(threading.BoundedSemaphore(max(v, 1))) ==
              in_sim(lambda: drive_sem(core.SimBoundedSemaphore(max(v, 1)))), f'BoundedSemaphore {ops}')
        eops = [rng.choice(['set', 'clear', 'is_set', 'wait0']) for _ in range(rng.randint(1, 10))]

        def drive_ev(ev):
            out = []
            for op in eops:
                if op == 'wait0':
                    out.append(outcome(lambda: ev.wait(0.001)))
                else:
                    out.append(outcome(getattr(ev, op)))
            return out
        check(drive_ev(threading.Event()) == in_sim(lambda: drive_ev(core.SimEvent())), f'Event {eops}')
        n += 5
    print(f'threading primitives: {n} op sequences compared')


def executors(rng, n_seq=60):
    def work(x):
        if x % 5 == 3:
            raise ValueError(x)
        return x * x
    for _ in range(n_seq):
        args = [rng.randrange(20) for _ in range(rng.randint(0, 12))]
        workers = rng.choice([1, 2, 20])

        def drive(pool_cls, wait_fn, first_exc):
            out = []
            with pool_cls(max_workers=workers) as ex:
                futs = [ex.submit(work, a) for a in args]
            for f in futs:
                out.append(outcome(f.result))
                out.append(('exc?', type(f.exception()).__name__))
                out.append(f.done())
            done, not_done = wait_fn(futs, return_when=first_exc)
            out.append((len(done), len(not_done)))
            ex2 = pool_cls(max_workers=workers)
            out.append(outcome(lambda: list(ex2.map(work, [1, 2, 4]))))
            ex2.shutdown()
            out.append(outcome(lambda: ex2.submit(work, 1)))
            return out
        real = drive(cf.ThreadPoolExecutor, cf.wait, cf.FIRST_EXCEPTION)
        sim = in_sim(lambda: drive(core.SimExecutor, core.sim_wait, core.SimCF.FIRST_EXCEPTION))
        check(real == sim, f'executor workers={workers} args={args}: real {real} sim {sim}')
    print(f'executors: {n_seq} scenarios compared')


# ------------------------------------------------------------------------------------------------
STRACE_SCRIPT = r'''
import sys
sys.path.insert(0, {repo!r})
sys.path.insert(0, {verif!r})
import warnings; warnings.filterwarnings('ignore')
import json
import seismic_zfp.conversion_utils as cu
class _D: version = {version!r}
class _P:
    @staticmethod
    def get_distribution(name): return _D
cu.pkg_resources = _P
from harness import workloads
spec = json.loads({spec!r})
workloads.converter_fn(spec, {out!r})()
'''


def strace_writes(spec, scratch, tag):
    """Runs the conversion in a fresh interpreter under strace; returns the (offset, length) list of
    the writes that reached the output file, and its final bytes."""
    import json
    out = os.path.join(scratch, f'real_{tag}.sgz')
    script = os.path.join(scratch, f'run_{tag}.py')
    with open(script, 'w') as f:
        f.write(STRACE_SCRIPT.format(repo=env.REPO, verif=VERIF, version=env.STUB_VERSION,
                                     spec=json.dumps({k: v for k, v in spec.items()}), out=out))
    log = os.path.join(scratch, f'strace_{tag}.log')
    p = subprocess.run(['strace', '-f', '-y', '-e', 'trace=openat,write,pwrite64,lseek,close,ftruncate', '-o', log,
                        sys.executable, '-B', script], capture_output=True, text=True)
    if p.returncode != 0:
        raise SystemExit(f'strace run failed: {p.stderr[-800:]}')
    pos = {}
    writes = []
    pending = {}                       # pid -> fd of a write split over two strace lines
    for line in open(log):
        pid = line.split()[0]
        m = re.search(r'<\.\.\. write resumed>.*\)\s+= (\d+)', line)
        if m and pid in pending:
            fd = pending.pop(pid)
            n = int(m.group(1))
            writes.append((pos.get(fd, 0), n))
            pos[fd] = pos.get(fd, 0) + n
            continue
        if out not in line:
            continue
        m = re.search(r'openat\(.*' + re.escape(out) + r'", ([A-Z_|]+).*= (\d+)<', line)
        if m:
            pos[m.group(2)] = 0
            continue
        m = re.search(r'lseek\((\d+)<[^>]*>, (-?\d+), (SEEK_\w+)\)\s+= (\d+)', line)
        if m:
            pos[m.group(1)] = int(m.group(4))
            continue
        m = re.search(r' write\((\d+)<[^>]*>, .*<unfinished', line)
        if m:
            pending[pid] = m.group(1)
            continue
        m = re.search(r' write\((\d+)<[^>]*>, .*, (\d+)\)\s+= (\d+)', line)
        if m:
            fd, n = m.group(1), int(m.group(3))
            writes.append((pos.get(fd, 0), n))
            pos[fd] = pos.get(fd, 0) + n
            continue
        m = re.search(r'pwrite64\((\d+)<[^>]*>, .*, (\d+), (\d+)\)\s+= (\d+)', line)
        if m:
            writes.append((int(m.group(3)), int(m.group(4))))
    with open(out, 'rb') as f:
        data = f.read()
    return writes, data


def write_log(scratch):
    bufsize = None
    probe = os.path.join(scratch, 'probe')
    with open(probe, 'wb') as f:
        bufsize = io.DEFAULT_BUFFER_SIZE
        try:
            bufsize = max(os.fstat(f.fileno()).st_blksize, 1) or bufsize
        except OSError:
            pass
    specs = [
        dict(route='segy', shape=[5, 6, 20], bits=4, blockshape=[4, 4, -1], fmt=1, il0=1, xl0=1, il_step=1, xl_step=1,
             data_seed=77, detection='thorough', id=0),
        dict(route='numpy', shape=[9, 7, 30], bits=4, blockshape=[4, 4, -1], data_seed=3, id=1),
        dict(route='segy_2d', shape=[37, 40], bits=4, blockshape=[1, 16, -1], fmt=1, detection='heuristic', data_seed=5, id=2),
        dict(route='segy', shape=[6, 5, 20], bits=2, blockshape=[4, 4, -1], fmt=5, il0=3, xl0=9, il_step=2, xl_step=1,
             data_seed=9, detection='exhaustive', id=3),
    ]
    for spec in specs:
        workloads.materialise(spec, scratch)
        real_writes, real_bytes = strace_writes(spec, scratch, spec['id'])
        fs = storage.SimFS(bufsize=bufsize)
        out = storage.PREFIX + 'out.sgz'
        r = env.run_sim(workloads.converter_fn(spec, out), fs, core.SeqChooser(), step_cap=10 ** 6)
        if r.status != 'ok':
            raise SystemExit(f'simulated conversion failed: {r.status} {r.exc!r}')
        sim_writes = [(e[4], len(e[5])) for e in fs.oslog if e[3] == 'write']
        check(fs.image(out) == real_bytes, f"final bytes of {spec['route']} differ between simulation and real run")
        check(sim_writes == real_writes, f"OS-level write sequence of {spec['route']} (buffer {bufsize}): "
                                         f"real {real_writes} sim {sim_writes}")
        print(f"write log {spec['route']:8s}: {len(real_writes)} OS writes, identical: {sim_writes == real_writes}")


def read_handle(rng, scratch):
    data = bytes(rng.randrange(256) for _ in range(10000))
    p = os.path.join(scratch, 'rh.bin')
    with open(p, 'wb') as f:
        f.write(data)
    real = open(p, 'rb')
    fs = storage.SimFS()
    sp = storage.PREFIX + 'rh.bin'
    fs.add_file(sp, data)
    sim = fs.open(sp, 'rb')
    check(isinstance(sim, io.BufferedReader) and isinstance(real, io.BufferedReader), 'read handle is not an io.BufferedReader')
    check(sim.mode == real.mode and sim.readable() and sim.seekable() and not sim.writable(), 'handle attributes')
    for _ in range(400):
        op = rng.choice(['seek', 'read', 'tell', 'readinto', 'seek_end', 'read_all'])
        if op == 'seek':
            o = rng.randrange(0, 12000)
            check(real.seek(o) == sim.seek(o), 'seek')
        elif op == 'seek_end':
            o = -rng.randrange(0, 100)
            check(real.seek(o, 2) == sim.seek(o, 2), 'seek end')
        elif op == 'read':
            n = rng.choice([0, 1, 4, 100, 4096, 9000])
            check(real.read(n) == sim.read(n), f'read({n})')
        elif op == 'read_all' and rng.random() < 0.1:
            check(real.read() == sim.read(), 'read()')
        elif op == 'tell':
            check(real.tell() == sim.tell(), 'tell')
        elif op == 'readinto':
            a, b = bytearray(rng.choice([0, 3, 512])), None
            b = bytearray(len(a))
            check(real.readinto(a) == sim.readinto(b) and a == b, 'readinto')
    real.close()
    sim.close()
    check(real.closed and sim.closed, 'closed flag')
    check(outcome(lambda: real.read(1)) == outcome(lambda: sim.read(1)), 'read after close')
    print('read handle: 400 operations compared with a real file')


def shared_handle_interleaving(rng):
    """Two threads on one handle: T1 seeks, T2 seeks and reads, T1 reads -> T1 must get the bytes that follow
    T2's read (what a real file does when the calls happen in that order), in every schedule that produces it."""
    data = bytes(rng.randrange(256) for _ in range(4000))
    hits = 0
    for seed in range(200):
        fs = storage.SimFS()
        sp = storage.PREFIX + 'sh.bin'
        fs.add_file(sp, data)
        order = []
        got = {}

        def fn():
            h = fs.open(sp, 'rb')

            def t2():
                h.seek(2000)
                order.append('t2.seek')
                got['t2'] = h.read(5)
                order.append('t2.read')
            t = core.SimThread(target=t2)
            t.start()
            h.seek(100)
            order.append('t1.seek')
            got['t1'] = h.read(5)
            order.append('t1.read')
            t.join()
        r = env.run_sim(fn, fs, core.RandomChooser(random.Random(seed)), step_cap=1000)
        if r.status != 'ok':
            raise SystemExit('shared-handle scenario did not run')
        # replay the recorded order of the four operations on a real file-like model
        pos = 0
        expect = {}
        for op in order:
            who, what = op.split('.')
            if what == 'seek':
                pos = 100 if who == 't1' else 2000
            else:
                expect[who] = data[pos:pos + 5]
                pos += 5
        check(got == expect, f'shared handle, order {order}: got {got} expected {expect}')
        if order == ['t1.seek', 't2.seek', 't2.read', 't1.read']:
            hits += 1
    check(hits > 0, 'the seek / seek-read / read interleaving was never produced')
    print(f'shared handle: 200 schedules of two threads on one handle agree with sequential file semantics '
          f'({hits} of them with a read landing between the other thread\'s seek and read)')


def main(argv):
    seed = int(argv[1]) if len(argv) > 1 else 1
    rng = random.Random(seed)
    scratch = tempfile.mkdtemp(prefix='verif_conf_')
    try:
        queues(rng)
        primitives(rng)
        executors(rng)
        read_handle(rng, scratch)
        shared_handle_interleaving(rng)
        if shutil.which('strace'):
            write_log(scratch)
        else:
            print('strace not found: write-log comparison skipped')
    finally:
        shutil.rmtree(scratch, ignore_errors=True)
    print('CONFORMANCE ' + ('OK' if not FAILS else f'BROKEN ({len(FAILS)} mismatches)'))
    return 1 if FAILS else 0


if __name__ == '__main__':
    sys.exit(main(sys.argv))
