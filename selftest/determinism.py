"""Determinism self-test: the same (property, seed, run) in fresh interpreters under two hash seeds and
sharded over 1 and over 16 workers must give identical event-log digests.

    python -B selftest/determinism.py [n_runs_per_property] [property ...]
"""
import json
import os
import subprocess
import sys

HERE = os.path.dirname(os.path.abspath(__file__))
VERIF = os.path.dirname(HERE)
PROPS = ['C16', 'C15', 'C07', 'C17', 'C18']
CONFIGS = [{'PYTHONHASHSEED': '0', 'VERIF_NPROC': '1'}, {'PYTHONHASHSEED': '0', 'VERIF_NPROC': '16'},
           {'PYTHONHASHSEED': '12345', 'VERIF_NPROC': '16'}, {'PYTHONHASHSEED': '777', 'VERIF_NPROC': '5'}]


def digests(pid, n, extra, seed):
    e = dict(os.environ, VERIF_SEED=str(seed))
    e.update(extra)
    p = subprocess.run([sys.executable, '-B', os.path.join(VERIF, 'check.py'), pid, '--digests', str(n)], env=e,
                       capture_output=True, text=True, cwd=VERIF)
    for line in p.stdout.splitlines():
        if line.startswith('DIGESTS '):
            return json.loads(line[8:])
    raise SystemExit(f'{pid}: no digests\n{p.stdout[-2000:]}\n{p.stderr[-2000:]}')


def main(argv):
    n = int(argv[1]) if len(argv) > 1 else 400
    props = argv[2:] or PROPS
    bad = 0
    for pid in props:
        k = n if pid != 'C18' else max(4, n // 40)
        for seed in (1, 2):
            ref = digests(pid, k, CONFIGS[0], seed)
            for cfg in CONFIGS[1:]:
                d = digests(pid, k, cfg, seed)
                diff = sum(1 for a, b in zip(ref, d) if a != b) + abs(len(ref) - len(d))
                print(f'{pid} seed {seed}: {len(ref)} runs, config {cfg}: {diff} mismatches')
                bad += diff
    print('DETERMINISM ' + ('OK' if not bad else f'BROKEN ({bad} mismatches)'))
    return 1 if bad else 0


if __name__ == '__main__':
    sys.exit(main(sys.argv))
