"""Runs the registered checks against the independently written breaking changes kept under
/verif/seeded/<id>/ (patch.diff, demo.py, meta.json).  Each change is applied to a scratch copy of the
repository (outside /repo and /verif, removed afterwards) which the check reads through VERIF_REPO.

    python -B selftest/seeded.py [--verify] [--tier quick|thorough] [--budget S] [id-or-property ...]

--verify additionally re-establishes what makes a change admissible: the demonstration passes on the
unchanged tree and fails with the change, and the repository's own test suite still passes the
baseline's 93 tests with the change applied.
"""
import json
import os
import shutil
import subprocess
import sys
import tempfile
import time

HERE = os.path.dirname(os.path.abspath(__file__))
VERIF = os.path.dirname(HERE)
REPO = os.path.realpath(os.environ.get('VERIF_REPO', '/repo'))
SEEDED = os.path.join(VERIF, 'seeded')
PY = sys.executable


def scratch_copy():
    d = tempfile.mkdtemp(prefix='verif_seed_')
    root = os.path.join(d, 'repo')
    shutil.copytree(REPO, root, ignore=shutil.ignore_patterns('.git', '__pycache__', '*.pyc', 'gui', 'examples'))
    return d, root


def apply_patch(root, patch):
    p = subprocess.run(['git', 'apply', '--whitespace=nowarn', patch], cwd=root, capture_output=True, text=True)
    if p.returncode != 0:
        raise SystemExit(f'patch {patch} does not apply: {p.stderr}')


def passing_tests(root):
    xml = os.path.join(root, '_junit.xml')
    subprocess.run([PY, '-m', 'pytest', '-q', '-p', 'no:cacheprovider', '--timeout=900',
                    '--continue-on-collection-errors', f'--junitxml={xml}'], cwd=root, capture_output=True, text=True)
    import xml.etree.ElementTree as ET
    ok = set()
    for tc in ET.parse(xml).getroot().iter('testcase'):
        if not any(ch.tag in ('failure', 'error', 'skipped') for ch in tc):
            ok.add(f"{tc.get('classname')}::{tc.get('name')}")
    os.remove(xml)
    return ok


def run_demo(root, demo):
    # the script's own directory is sys.path[0]: the demonstration must sit inside the checkout it tests
    local = os.path.join(root, '_seeded_demo.py')
    shutil.copy(demo, local)
    try:
        p = subprocess.run([PY, '-B', local], cwd=root, capture_output=True, text=True, timeout=900)
    finally:
        os.remove(local)
    return p.returncode, (p.stdout + p.stderr)[-600:]


def verify(sid, sdir):
    base = set(json.load(open('/root/.vp/BASELINE.json'))['stable_pass']) if os.path.exists('/root/.vp/BASELINE.json') \
        else None
    d, root = scratch_copy()
    try:
        demo = os.path.join(sdir, 'demo.py')
        c0, out0 = run_demo(root, demo)
        apply_patch(root, os.path.join(sdir, 'patch.diff'))
        c1, out1 = run_demo(root, demo)
        ok = passing_tests(root)
        lost = sorted(base - ok) if base is not None else []
        good = c0 == 0 and c1 != 0 and not lost
        print(f'  verify {sid}: demo unchanged tree exit {c0}, with change exit {c1}, baseline tests lost: {len(lost)}'
              f' -> {"ADMISSIBLE" if good else "NOT ADMISSIBLE"}')
        if not good:
            print('   ', out0[-300:], '\n   ', out1[-300:], '\n   ', lost[:5])
        return good
    finally:
        shutil.rmtree(d, ignore_errors=True)


def run_check(sid, sdir, prop, tier, budget):
    d, root = scratch_copy()
    try:
        apply_patch(root, os.path.join(sdir, 'patch.diff'))
        e = dict(os.environ, VERIF_REPO=root, VERIF_EVIDENCE_DIR=os.path.join(d, 'ev'),
                 VERIF_REPLAY_DIR=os.path.join(d, 'rp'))
        if budget:
            e['VERIF_BUDGET_S'] = str(budget)
        t = time.time()
        p = subprocess.run([PY, '-B', os.path.join(VERIF, 'check.py'), prop, tier], env=e, capture_output=True,
                           text=True, cwd=VERIF)
        lines = [l for l in p.stdout.splitlines() if l.startswith(('VIOLATION', '  signature', 'HARNESS', 'KNOWN'))]
        replay_ok = None
        if p.returncode == 1:
            # the replay file must reproduce the violation in a fresh process
            for l in lines:
                if l.startswith('VIOLATION') and 'replay=' in l:
                    rp = l.split('replay=', 1)[1].strip()
                    q = subprocess.run([PY, '-B', os.path.join(VERIF, 'check.py'), prop, '--replay', rp], env=e,
                                       capture_output=True, text=True, cwd=VERIF)
                    replay_ok = q.returncode == 1 and 'VIOLATION' in q.stdout
                    break
        return p.returncode, lines, time.time() - t, p.stdout[-1500:] + p.stderr[-1500:], replay_ok
    finally:
        shutil.rmtree(d, ignore_errors=True)


def main(argv):
    args = argv[1:]
    do_verify = '--verify' in args or '--verify-only' in args
    verify_only = '--verify-only' in args
    tier = 'quick'
    budget = None
    sel = []
    i = 0
    while i < len(args):
        a = args[i]
        if a == '--tier':
            tier = args[i + 1]
            i += 1
        elif a == '--budget':
            budget = args[i + 1]
            i += 1
        elif a not in ('--verify', '--verify-only'):
            sel.append(a)
        i += 1
    res = []
    for sid in sorted(os.listdir(SEEDED)) if os.path.isdir(SEEDED) else []:
        sdir = os.path.join(SEEDED, sid)
        mp = os.path.join(sdir, 'meta.json')
        if not os.path.exists(mp):
            continue
        meta = json.load(open(mp))
        prop = meta['property']
        if sel and sid not in sel and prop not in sel:
            continue
        if do_verify and not verify(sid, sdir):
            res.append((sid, 'INADMISSIBLE'))
            continue
        if verify_only:
            res.append((sid, 'CAUGHT'))       # (admissibility only; not run against the checks)
            continue
        verdicts = []
        for pid in meta.get('checks', [prop]):
            code, lines, dt, tail, replay_ok = run_check(sid, sdir, pid, tier, budget)
            verdict = 'CAUGHT' if code == 1 else ('MISSED' if code == 0 else f'ERROR({code})')
            if code == 1 and replay_ok is False:
                verdict = 'CAUGHT-NOREPLAY'
            print(f'{verdict:16s} {sid:34s} {pid} {dt:5.0f}s  {meta.get("summary", "")[:90]}')
            for l in lines[:3]:
                print('      ' + l[:220])
            if code not in (0, 1):
                print(tail)
            verdicts.append(verdict)
        res.append((sid, 'CAUGHT' if 'CAUGHT' in verdicts else verdicts[0]))
    missed = [r for r in res if r[1] != 'CAUGHT']
    print(f'{len(res) - len(missed)}/{len(res)} caught; not caught: {[m[0] for m in missed]}')
    return 1 if missed else 0


if __name__ == '__main__':
    sys.exit(main(sys.argv))
