"""Sensitivity self-test: realistic breaking changes, applied to a scratch copy of the repository
(outside /repo and /verif), checked through VERIF_REPO; the relevant quick check must exit 1.

    python -B selftest/mutants.py [property|mutant-id ...]

Each mutant is a list of (file, old, new) textual replacements; `old` must occur exactly once.
"""
import os
import shutil
import subprocess
import sys
import tempfile
import time

HERE = os.path.dirname(os.path.abspath(__file__))
VERIF = os.path.dirname(HERE)
REPO = os.path.realpath(os.environ.get('VERIF_REPO', '/repo'))

CU = 'seismic_zfp/conversion_utils.py'
CV = 'seismic_zfp/conversion.py'
LD = 'seismic_zfp/loader.py'
RD = 'seismic_zfp/read.py'
UT = 'seismic_zfp/utils.py'

MUTANTS = [
    # ---------------------------------------------------------------- C16
    ('c16_writer_early_task_done', 'C16', 'writer acknowledges the item before the file write', [
        (CU, "        compressed = queue.get()\n        out_filehandle.write(compressed)\n        queue.task_done()",
             "        compressed = queue.get()\n        queue.task_done()\n        out_filehandle.write(compressed)")]),
    ('c16_compressor_early_task_done', 'C16', 'compressor acknowledges before handing the block on', [
        (CU, "        queue_out.put(compressed)\n        queue_in.task_done()",
             "        queue_in.task_done()\n        queue_out.put(compressed)")]),
    ('c16_second_compressor', 'C16', 'a second compressor thread (blocks can overtake each other)', [
        (CU, "    t_compress.daemon = True\n    t_compress.start()\n",
             "    t_compress.daemon = True\n    t_compress.start()\n"
             "    t_compress2 = Thread(target=compressor, args=(compression_queue, writing_queue, bits_per_voxel))\n"
             "    t_compress2.daemon = True\n    t_compress2.start()\n")]),
    ('c16_no_writing_join', 'C16', 'only the compression queue is joined before the footer', [
        (CU, "    compression_queue.join()\n    writing_queue.join()\n", "    compression_queue.join()\n")]),
    ('c16_second_writer', 'C16', 'a second writer thread on the same handle', [
        (CU, "    t_write.daemon = True\n    t_write.start()\n",
             "    t_write.daemon = True\n    t_write.start()\n"
             "    t_write2 = Thread(target=writer_no_header, args=(writing_queue, out_filehandle))\n"
             "    t_write2.daemon = True\n    t_write2.start()\n"),
        (CU, "def run_conversion_loop(",
             "def writer_no_header(queue, out_filehandle):\n    while True:\n        compressed = queue.get()\n"
             "        out_filehandle.write(compressed)\n        queue.task_done()\n\n\ndef run_conversion_loop(")]),
    ('c16_no_flush_before_patch', 'C16', 'flush before the in-place patches dropped (stale buffered header wins)', [
        (CU, "    writing_queue.join()\n    out_filehandle.flush()\n", "    writing_queue.join()\n")]),
    ('c16_buffer_reuse', 'C16', 'plane-set buffer allocated once and reused while still queued', [
        (CU, "    for plane_set_id in range(n_plane_sets):\n        if verbose:\n            progress_printer(start_time, plane_set_id / n_plane_sets)\n"
             "        # Need to allocate at every step as this is being sent to another function\n",
             "    seismic_buffer = np.zeros((blockshape[0], padded_shape[1], padded_shape[2]), dtype=np.float32)\n"
             "    for plane_set_id in range(n_plane_sets):\n        if verbose:\n            progress_printer(start_time, plane_set_id / n_plane_sets)\n"),
        (CU, "            planes_to_read = blockshape[0]\n\n        seismic_buffer = np.zeros((blockshape[0], padded_shape[1], padded_shape[2]), dtype=np.float32)\n",
             "            planes_to_read = blockshape[0]\n\n")]),
    ('c16_join_with_qsize', 'C16', 'completion awaited by polling queue emptiness instead of join()', [
        (CU, "    compression_queue.join()\n    writing_queue.join()\n",
             "    while not compression_queue.empty():\n        time.sleep(0.001)\n"
             "    while not writing_queue.empty():\n        time.sleep(0.001)\n")]),
]


def apply(mutant, root):
    for rel, old, new in mutant[3]:
        p = os.path.join(root, rel)
        s = open(p).read()
        if s.count(old) != 1:
            raise SystemExit(f'mutant {mutant[0]}: pattern occurs {s.count(old)} times in {rel}')
        open(p, 'w').write(s.replace(old, new))


def scratch_copy():
    d = tempfile.mkdtemp(prefix='verif_mut_')
    root = os.path.join(d, 'repo')
    shutil.copytree(REPO, root, ignore=shutil.ignore_patterns('.git', '__pycache__', '*.pyc', 'docs', 'gui', 'examples'))
    return d, root


def run_one(mutant, tier='quick', extra_env=None):
    d, root = scratch_copy()
    try:
        apply(mutant, root)
        e = dict(os.environ, VERIF_REPO=root, VERIF_EVIDENCE_DIR=os.path.join(d, 'ev'), VERIF_REPLAY_DIR=os.path.join(d, 'rp'))
        e.update(extra_env or {})
        t = time.time()
        p = subprocess.run([sys.executable, '-B', os.path.join(VERIF, 'check.py'), mutant[1], tier],
                           env=e, capture_output=True, text=True, cwd=VERIF)
        lines = [l for l in p.stdout.splitlines() if l.startswith(('VIOLATION', '  signature', 'HARNESS', 'KNOWN'))]
        return p.returncode, lines, time.time() - t, p.stdout[-2000:] + p.stderr[-2000:]
    finally:
        shutil.rmtree(d, ignore_errors=True)


def main(argv):
    sel = argv[1:]
    res = []
    for m in MUTANTS:
        if sel and m[0] not in sel and m[1] not in sel:
            continue
        code, lines, dt, tail = run_one(m)
        verdict = 'CAUGHT' if code == 1 else ('MISSED' if code == 0 else f'ERROR({code})')
        print(f'{verdict:10s} {m[0]:40s} {dt:5.0f}s  {m[2]}')
        for l in lines[:4]:
            print('      ' + l)
        if code not in (0, 1):
            print(tail)
        res.append((m[0], verdict))
    missed = [r for r in res if r[1] != 'CAUGHT']
    print(f'{len(res) - len(missed)}/{len(res)} caught')
    return 1 if missed else 0


if __name__ == '__main__':
    sys.exit(main(sys.argv))
