"""Sensitivity self-test: realistic breaking changes, applied to a scratch copy of the repository
(outside /repo and /verif), checked through VERIF_REPO; the relevant quick check must exit 1.

    python -B selftest/mutants.py [property|mutant-id ...]

Each mutant is a list of (file, old, new) textual replacements; `old` must occur exactly once.
"""
import os
import shutil
import subprocess
import sys
import tempfile
import time

HERE = os.path.dirname(os.path.abspath(__file__))
VERIF = os.path.dirname(HERE)
REPO = os.path.realpath(os.environ.get('VERIF_REPO', '/repo'))

CU = 'seismic_zfp/conversion_utils.py'
CV = 'seismic_zfp/conversion.py'
LD = 'seismic_zfp/loader.py'
RD = 'seismic_zfp/read.py'
UT = 'seismic_zfp/utils.py'

MUTANTS = [
    # ---------------------------------------------------------------- C16
    ('c16_writer_early_task_done', 'C16', 'writer acknowledges the item before the file write', [
        (CU, "        compressed = queue.get()\n        out_filehandle.write(compressed)\n        queue.task_done()",
             "        compressed = queue.get()\n        queue.task_done()\n        out_filehandle.write(compressed)")]),
    ('c16_compressor_early_task_done', 'C16', 'compressor acknowledges before handing the block on', [
        (CU, "        queue_out.put(compressed)\n        queue_in.task_done()",
             "        queue_in.task_done()\n        queue_out.put(compressed)")]),
    ('c16_second_compressor', 'C16', 'a second compressor thread (blocks can overtake each other)', [
        (CU, "    t_compress.daemon = True\n    t_compress.start()\n",
             "    t_compress.daemon = True\n    t_compress.start()\n"
             "    t_compress2 = Thread(target=compressor, args=(compression_queue, writing_queue, bits_per_voxel))\n"
             "    t_compress2.daemon = True\n    t_compress2.start()\n")]),
    ('c16_no_writing_join', 'C16', 'only the compression queue is joined before the footer', [
        (CU, "    compression_queue.join()\n    writing_queue.join()\n", "    compression_queue.join()\n")]),
    ('c16_second_writer', 'C16', 'a second writer thread on the same handle', [
        (CU, "    t_write.daemon = True\n    t_write.start()\n",
             "    t_write.daemon = True\n    t_write.start()\n"
             "    t_write2 = Thread(target=writer_no_header, args=(writing_queue, out_filehandle))\n"
             "    t_write2.daemon = True\n    t_write2.start()\n"),
        (CU, "def run_conversion_loop(",
             "def writer_no_header(queue, out_filehandle):\n    while True:\n        compressed = queue.get()\n"
             "        out_filehandle.write(compressed)\n        queue.task_done()\n\n\ndef run_conversion_loop(")]),
    ('c16_no_flush_before_patch', 'C16', 'flush before the in-place patches dropped (stale buffered header wins)', [
        (CU, "    writing_queue.join()\n    out_filehandle.flush()\n", "    writing_queue.join()\n")]),
    ('c16_buffer_reuse', 'C16', 'plane-set buffer allocated once and reused while still queued', [
        (CU, "    for plane_set_id in range(n_plane_sets):\n        if verbose:\n            progress_printer(start_time, plane_set_id / n_plane_sets)\n"
             "        # Need to allocate at every step as this is being sent to another function\n",
             "    seismic_buffer = np.zeros((blockshape[0], padded_shape[1], padded_shape[2]), dtype=np.float32)\n"
             "    for plane_set_id in range(n_plane_sets):\n        if verbose:\n            progress_printer(start_time, plane_set_id / n_plane_sets)\n"),
        (CU, "            planes_to_read = blockshape[0]\n\n        seismic_buffer = np.zeros((blockshape[0], padded_shape[1], padded_shape[2]), dtype=np.float32)\n",
             "            planes_to_read = blockshape[0]\n\n")]),
    ('c16_join_with_qsize', 'C16', 'completion awaited by polling queue emptiness instead of join()', [
        (CU, "    compression_queue.join()\n    writing_queue.join()\n",
             "    while not compression_queue.empty():\n        time.sleep(0.001)\n"
             "    while not writing_queue.empty():\n        time.sleep(0.001)\n")]),
]

MUTANTS += [
    ('c16_busy_wait_empty', 'C16', 'completion awaited by spinning on queue emptiness (no sleep, no join)', [
        (CU, "    compression_queue.join()\n    writing_queue.join()\n",
             "    while not compression_queue.empty():\n        pass\n"
             "    while not writing_queue.empty():\n        pass\n")]),
    ('c16_prefetch_thread_joined_late', 'C16', 'plane set read by a helper thread that is joined only after the hand-over', [
        (CU, "            io_thread_func(blockshape, store_headers, headers_dict, geom, plane_set_id, planes_to_read,\n"
             "                           seismic_buffer, seismicfile, minimal_il_reader, trace_length)\n\n"
             "        for i in range(planes_to_read):\n            hash_object.update(seismic_buffer[i, 0:n_xlines, 0:trace_length].copy())\n\n"
             "        if blockshape[0] == 4:\n            queue.put(seismic_buffer)\n",
             "            t_io = Thread(target=io_thread_func, args=(blockshape, store_headers, headers_dict, geom, plane_set_id,\n"
             "                                                      planes_to_read, seismic_buffer, seismicfile,\n"
             "                                                      minimal_il_reader, trace_length))\n"
             "            t_io.start()\n            if blockshape[0] != 4:\n                t_io.join()\n\n"
             "        if blockshape[0] == 4:\n            queue.put(seismic_buffer)\n"
             "            if not isinstance(geom, InferredGeometry3d):\n                t_io.join()\n\n"
             "        for i in range(planes_to_read):\n            hash_object.update(seismic_buffer[i, 0:n_xlines, 0:trace_length].copy())\n\n"
             "        if blockshape[0] == 4:\n            pass\n")]),
]

MUTANTS += [
    # ---------------------------------------------------------------- C17
    ('c17_xl_futures_dropped', 'C17', 'crossline fan-out no longer collects its futures', [
        (LD, "                       for chunk_num in range(self.shape_pad[0] // 4)]\n        self._raise_worker_exceptions(futures)\n",
             "                       for chunk_num in range(self.shape_pad[0] // 4)]\n")]),
    ('c17_catch_and_zero', 'C17', 'a failed range read in the fan-out leaves zeros', [
        (LD, "        part = self._get_compressed_bytes(data_offset, length)\n        buffer[buffer_start: buffer_start + length] = part",
             "        try:\n            part = self._get_compressed_bytes(data_offset, length)\n        except Exception:\n            return\n"
             "        buffer[buffer_start: buffer_start + length] = part")]),
    ('c17_pad_short_blob', 'C17', 'short remote download padded with zeros', [
        (UT, "    return check_range_length(file.download_blob(offset=offset, length=length).readall(), offset, length)",
             "    return file.download_blob(offset=offset, length=length).readall().ljust(length, b'\\0')")]),
    ('c17_check_local_only', 'C17', 'length check only for local files', [
        (UT, "    return check_range_length(file.download_blob(offset=offset, length=length).readall(), offset, length)",
             "    return file.download_blob(offset=offset, length=length).readall()")]),
    ('c17_first_future_only', 'C17', 'only the first future of a fan-out is checked', [
        (LD, "        for future in futures:\n            future.result()", "        for future in futures[:1]:\n            future.result()")]),
    ('c17_local_pool_20', 'C17', '20 workers also for local files (seek+read on one shared handle)', [
        (LD, "        self.n_workers = 1 if self.local else 20", "        self.n_workers = 20")]),
    ('c17_retry_keeps_partial', 'C17', 'one retry after a failed read, first attempt\'s partial state kept', [
        (LD, "    def _insert_into_buffer(self, buffer, buffer_start, data_offset, length):\n        part = self._get_compressed_bytes(data_offset, length)",
             "    def _insert_into_buffer(self, buffer, buffer_start, data_offset, length):\n        try:\n            part = self._get_compressed_bytes(data_offset, length)\n"
             "        except IOError:\n            part = self._get_compressed_bytes(data_offset + length, length)")]),
    ('c17_shared_scratch_between_workers', 'C17', 'pool workers pass the fetched part through one attribute of the loader', [
        (LD, "        part = self._get_compressed_bytes(data_offset, length)\n        buffer[buffer_start: buffer_start + length] = part",
             "        self._part = self._get_compressed_bytes(data_offset, length)\n"
             "        buffer[buffer_start: buffer_start + length] = self._part")]),
    ('c17_footer_int_unchecked', 'C17', 'single-value footer read bypasses the checked primitive', [
        (RD, "                        buf = self.file.read_range(self.file, v + 4*index, 4)  # A 32-bit int is 4 bytes\n                        values[v] = np.frombuffer(buf, dtype=np.int32)[0]",
             "                        if self.local:\n                            self.file.seek(v + 4*index)\n                            buf = self.file.read(4).ljust(4, b'\\0')\n"
             "                        else:\n                            buf = self.file.read_range(self.file, v + 4*index, 4)\n"
             "                        values[v] = np.frombuffer(buf, dtype=np.int32)[0]")]),
    # ---------------------------------------------------------------- C18
    ('c18_no_length_check_file', 'C18', 'local range reads return whatever came back', [
        (UT, "    return check_range_length(file.read(length), offset, length)", "    return file.read(length)")]),
    ('c18_only_empty_is_error', 'C18', 'only an empty result counts as a short read', [
        (UT, "    if len(data) != length:", "    if len(data) == 0 and length > 0:")]),
    ('c18_header_padded', 'C18', 'header reads tolerate a short file (missing bytes read as zero)', [
        (RD, "        self.headerbytes = self.file.read_range(self.file, 0, DISK_BLOCK_BYTES)\n",
             "        self.headerbytes = self._read_header_tolerant(DISK_BLOCK_BYTES)\n"),
        (RD, "            self.headerbytes = self.file.read_range(self.file, 0, DISK_BLOCK_BYTES*self.n_header_blocks)\n",
             "            self.headerbytes = self._read_header_tolerant(DISK_BLOCK_BYTES*self.n_header_blocks)\n"),
        (RD, "    def __repr__(self):\n        return f'SgzReader({self._filename})'\n",
             "    def _read_header_tolerant(self, n):\n        try:\n            return self.file.read_range(self.file, 0, n)\n"
             "        except IOError:\n            if not self.local:\n                raise\n            self.file.seek(0)\n"
             "            return self.file.read(n).ljust(n, b'\\0')\n\n"
             "    def __repr__(self):\n        return f'SgzReader({self._filename})'\n")]),
    ('c18_footer_to_eof', 'C18', 'footer arrays read to EOF and cut, not by counted read', [
        (RD, "                        buffer = self.file.read_range(self.file, offset, self.header_entry_length_bytes)\n                        values = np.frombuffer(buffer, dtype=np.int32)",
             "                        if self.local:\n                            self.file.seek(offset)\n                            buffer = self.file.read()[:self.header_entry_length_bytes]\n"
             "                            buffer = buffer[:len(buffer) - len(buffer) % 4]\n"
             "                        else:\n                            buffer = self.file.read_range(self.file, offset, self.header_entry_length_bytes)\n"
             "                        values = np.frombuffer(buffer, dtype=np.int32)")]),
    ('c18_preload_unchecked', 'C18', 'preload reads the data section without length check', [
        (LD, "            self.compressed_volume = self.file.read_range(self.file, self.data_start_bytes,\n                                                          self.compressed_data_diskblocks * self.block_bytes)",
             "            if self.local:\n                self.file.seek(self.data_start_bytes)\n                self.compressed_volume = self.file.read(self.compressed_data_diskblocks * self.block_bytes)\n"
             "            else:\n                self.compressed_volume = self.file.read_range(self.file, self.data_start_bytes,\n"
             "                                                              self.compressed_data_diskblocks * self.block_bytes)")]),
]

MUTANTS += [
    # ---------------------------------------------------------------- C15
    ('c15_zslice_key_drops_id', 'C15', 'z-slice cache keyed without the slice id (same block, other unit -> stale)', [
        (LD, "    @lru_cache(maxsize=1)\n    def read_and_decompress_zslice_set(self, blocks_per_dim, zslice_first_block_offset, zslice_id):\n",
             "    def read_and_decompress_zslice_set(self, blocks_per_dim, zslice_first_block_offset, zslice_id):\n"
             "        self._zslice_id = zslice_id\n        return self._zslice_set(blocks_per_dim, zslice_first_block_offset)\n\n"
             "    @lru_cache(maxsize=1)\n    def _zslice_set(self, blocks_per_dim, zslice_first_block_offset):\n        zslice_id = self._zslice_id\n")]),
    ('c15_chunk_key_drops_z', 'C15', 'trace chunk LRU keyed on the column only, not on the sample window', [
        (RD, "            chunk = self._read_containing_chunk_cached(min_il, min_xl, min_z, max_z)\n",
             "            self._chunk_z = (min_z, max_z)\n            chunk = self._read_containing_chunk_cached(min_il, min_xl)\n"),
        (RD, "    def _read_containing_chunk(self, ref_il, ref_xl, min_z, max_z):\n",
             "    def _read_containing_chunk(self, ref_il, ref_xl):\n        min_z, max_z = self._chunk_z\n")]),
    ('c15_padding_mode_sticky', 'C15', 'padding mode of the first header/tracefield call is kept (the original defect)', [
        (RD, "        if not self.structured and self.include_padding not in (None, include_padding):\n            self.clear_variant_headers()\n", "")]),
    ('c15_preload_one_block_short', 'C15', 'preload caches one disk block less than the data section', [
        (LD, "                                                          self.compressed_data_diskblocks * self.block_bytes)",
             "                                                          (self.compressed_data_diskblocks - 1) * self.block_bytes)")]),
    ('c15_sequential_read_shortcut', 'C15', 'loader skips the seek when it believes the handle is already positioned', [
        (LD, "            return self.file.read_range(self.file, self.data_start_bytes + offset, length_bytes)",
             "            if self.local and getattr(self, '_next_pos', None) == self.data_start_bytes + offset:\n"
             "                data = self.file.read(length_bytes)\n            else:\n"
             "                data = self.file.read_range(self.file, self.data_start_bytes + offset, length_bytes)\n"
             "            self._next_pos = self.data_start_bytes + offset + length_bytes\n            return data")]),
    ('c15_partial_headers_marked_complete', 'C15', 'one loaded tracefield marks the header cache as complete', [
        (RD, "        tracefild_list = self.segy_traceheader_template if tracefields is None else tracefields\n",
             "        if getattr(self, '_headers_loaded', False):\n            return\n        self._headers_loaded = True\n"
             "        tracefild_list = self.segy_traceheader_template if tracefields is None else tracefields\n")]),
]

MUTANTS += [
    # ---------------------------------------------------------------- C07
    ('c07_inline_reads_four_sets', 'C07', 'inline read requests four inline sets (the original defect)', [
        (LD, "(self.chunk_bytes * self.shape_pad[1]) // 4)\n        return self._decompress(buffer, (self.blockshape[0]",
             "min(self.chunk_bytes * self.shape_pad[1], self.compressed_data_diskblocks * self.block_bytes - il_block_offset))\n"
             "        return self._decompress(buffer, (self.blockshape[0]")]),
    ('c07_trace_window_reads_whole_chunk', 'C07', 'a windowed trace read fetches the whole chunk', [
        (RD, "            min_z = self.blockshape[2] * (min_sample_id // self.blockshape[2])\n            max_z = self.blockshape[2] * ((max_sample_id + self.blockshape[2] - 1) // self.blockshape[2])\n",
             "            min_z = 0\n            max_z = self.shape_pad[2]\n")]),
    ('c07_zslice_unit_fetched_twice', 'C07', 'every z-slice unit is requested twice', [
        (LD, "    def _insert_unit_into_buffer(self, buffer, buffer_start, data_offset):\n        self._insert_into_buffer(buffer, buffer_start, data_offset, self.unit_bytes)",
             "    def _insert_unit_into_buffer(self, buffer, buffer_start, data_offset):\n        self._insert_into_buffer(buffer, buffer_start, data_offset, self.unit_bytes)\n"
             "        self._insert_into_buffer(buffer, buffer_start, data_offset, self.unit_bytes)")]),
    ('c07_preload_bypassed_for_crossline', 'C07', 'crossline path reads from storage although the volume is preloaded', [
        (LD, "    def _insert_chunk_into_buffer(self, buffer, buffer_start, data_offset):\n        self._insert_into_buffer(buffer, buffer_start, data_offset, self.chunk_bytes)",
             "    def _insert_chunk_into_buffer(self, buffer, buffer_start, data_offset):\n"
             "        buffer[buffer_start: buffer_start + self.chunk_bytes] = self.file.read_range(\n"
             "            self.file, self.data_start_bytes + data_offset, self.chunk_bytes)")]),
    ('c07_header_loads_whole_arrays', 'C07', 'one trace header of a regular file loads every stored array', [
        (RD, "                if load_all_headers or not self.structured:\n", "                if True:\n")]),
    ('c07_2d_trace_range_grows', 'C07', '2D trace read length grows with the group number (the original defect)', [
        (LD, "                                            * ((max_id + self.blockshape[1] - 1) // self.blockshape[1]\n                                               - min_id // self.blockshape[1]))",
             "                                            * min((max_id + self.blockshape[1] - 1) // self.blockshape[1],\n"
             "                                                  self.shape_pad[1] // self.blockshape[1] - min_id // self.blockshape[1]))")]),
    ('c07_open_prefetches_first_block', 'C07', 'open also fetches the first data block', [
        (RD, "        # Read useful info out of the SGZ header\n",
             "        self._first_block = self.file.read_range(self.file, DISK_BLOCK_BYTES*self.n_header_blocks, DISK_BLOCK_BYTES)\n"
             "        # Read useful info out of the SGZ header\n")]),
    ('c07_subvolume_reads_full_traces', 'C07', 'sub-volume read ignores the sample window when fetching', [
        (LD, "        buffer = self.read_chunk_range(min_il, min_xl, min_z,\n                                       il_units, xl_units, z_units)\n",
             "        full = self.read_chunk_range(min_il, min_xl, 0, il_units, xl_units, self.shape_pad[2] // 4)\n"
             "        buffer = bytearray()\n        for c in range(il_units * xl_units):\n"
             "            start = (c * (self.shape_pad[2] // 4) + min_z // 4) * self.unit_bytes\n"
             "            buffer += full[start:start + z_units * self.unit_bytes]\n")]),
    ('c07_header_reads_8_bytes', 'C07', 'single header value fetched with an 8-byte read', [
        (RD, "                        buf = self.file.read_range(self.file, v + 4*index, 4)  # A 32-bit int is 4 bytes\n                        values[v] = np.frombuffer(buf, dtype=np.int32)[0]",
             "                        buf = self.file.read_range(self.file, v + 4*index - (4 if index else 0), 8 if index else 4)\n"
             "                        values[v] = np.frombuffer(buf, dtype=np.int32)[-1]")]),
    ('c07_duplicate_fields_read_again', 'C07', 'duplicate header fields fetch their shared array again (the original defect)', [
        (RD, "                    if v not in values:\n", "                    if True:\n")]),
]


def apply(mutant, root):
    for rel, old, new in mutant[3]:
        p = os.path.join(root, rel)
        s = open(p).read()
        if s.count(old) != 1:
            raise SystemExit(f'mutant {mutant[0]}: pattern occurs {s.count(old)} times in {rel}')
        open(p, 'w').write(s.replace(old, new))


def scratch_copy():
    d = tempfile.mkdtemp(prefix='verif_mut_')
    root = os.path.join(d, 'repo')
    shutil.copytree(REPO, root, ignore=shutil.ignore_patterns('.git', '__pycache__', '*.pyc', 'docs', 'gui', 'examples'))
    return d, root


def run_one(mutant, tier='quick', extra_env=None):
    d, root = scratch_copy()
    try:
        apply(mutant, root)
        e = dict(os.environ, VERIF_REPO=root, VERIF_EVIDENCE_DIR=os.path.join(d, 'ev'), VERIF_REPLAY_DIR=os.path.join(d, 'rp'))
        e.update(extra_env or {})
        t = time.time()
        p = subprocess.run([sys.executable, '-B', os.path.join(VERIF, 'check.py'), mutant[1], tier],
                           env=e, capture_output=True, text=True, cwd=VERIF)
        lines = [l for l in p.stdout.splitlines() if l.startswith(('VIOLATION', '  signature', 'HARNESS', 'KNOWN'))]
        return p.returncode, lines, time.time() - t, p.stdout[-2000:] + p.stderr[-2000:]
    finally:
        shutil.rmtree(d, ignore_errors=True)


def main(argv):
    sel = argv[1:]
    res = []
    for m in MUTANTS:
        if sel and m[0] not in sel and m[1] not in sel:
            continue
        try:
            code, lines, dt, tail = run_one(m)
        except SystemExit as ex:
            print(f'STALE      {m[0]:40s}        {ex}')
            res.append((m[0], 'STALE'))
            continue
        verdict = 'CAUGHT' if code == 1 else ('MISSED' if code == 0 else f'ERROR({code})')
        print(f'{verdict:10s} {m[0]:40s} {dt:5.0f}s  {m[2]}')
        for l in lines[:4]:
            print('      ' + l)
        if code not in (0, 1):
            print(tail)
        res.append((m[0], verdict))
    missed = [r for r in res if r[1] != 'CAUGHT']
    print(f'{len(res) - len(missed)}/{len(res)} caught')
    return 1 if missed else 0


if __name__ == '__main__':
    sys.exit(main(sys.argv))
